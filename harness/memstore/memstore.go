// Package memstore is an in-memory gitstore.Storer used as the environment of
// the lane-M explorers. It is NOT a model of gittuf: it only replaces the git
// object database and ref store. Objects are encoded in Git's canonical object
// format, so object IDs are the IDs real git computes for the same content
// (checked by the conformance replay against pkg/gitinterface).
package memstore

import (
	"bytes"
	"crypto/sha1" //nolint:gosec
	"encoding/hex"
	"errors"
	"fmt"
	"sort"
	"strings"
	"time"

	"github.com/gittuf/gittuf/pkg/githash"
	"github.com/gittuf/gittuf/pkg/gitstore"
	"github.com/hiddeco/sshsig"
	"golang.org/x/crypto/ssh"
)

const (
	UserName  = "Jane Doe"
	UserEmail = "jane.doe@example.com"
)

// FixedTime is the clock of gitinterface.CreateTestGitRepository.
var FixedTime = time.Date(1995, time.October, 26, 9, 0, 0, 0, time.UTC)

type objKind uint8

const (
	kBlob objKind = iota + 1
	kTree
	kCommit
	kTag
)

func (k objKind) String() string {
	switch k {
	case kBlob:
		return "blob"
	case kTree:
		return "tree"
	case kCommit:
		return "commit"
	case kTag:
		return "tag"
	}
	return "?"
}

type treeEnt struct {
	name string
	id   string // hex
	tree bool
}

type object struct {
	kind objKind
	data []byte // blob content; raw encoding for others

	// decoded forms
	ents    []treeEnt // tree
	tree    string    // commit
	parents []string  // commit
	message string    // commit (raw message as stored)
	payload []byte    // commit/tag: encoding without signature
	sig     string    // commit/tag armored signature
	target  string    // tag
	tkind   objKind   // tag target kind
}

// ObjectDB is an append-only content-addressed object store. Objects are
// immutable, so stores that snapshot each other share one ObjectDB.
type ObjectDB struct {
	objs map[string]*object
}

func NewObjectDB() *ObjectDB {
	db := &ObjectDB{objs: map[string]*object{}}
	db.put(kTree, nil, &object{kind: kTree})
	return db
}

func hashObject(kind objKind, data []byte) string {
	h := sha1.New() //nolint:gosec
	fmt.Fprintf(h, "%s %d\x00", kind.String(), len(data))
	h.Write(data)
	return hex.EncodeToString(h.Sum(nil))
}

func (db *ObjectDB) put(kind objKind, data []byte, o *object) string {
	id := hashObject(kind, data)
	if _, ok := db.objs[id]; !ok {
		o.kind = kind
		o.data = data
		db.objs[id] = o
	}
	return id
}

// Store is one repository: a ref map over a (possibly shared) ObjectDB.
type Store struct {
	DB   *ObjectDB
	Refs map[string]string // ref -> hex id

	// SigningKeyPEM is the key used when Commit is called with sign=true
	// (stands in for user.signingkey of the repository config).
	SigningKeyPEM []byte

	// Hook, if set, is called before every storage step with the step name
	// (method name, or Commit.read/Commit.write/Commit.cas for the three
	// internal steps of the two commit methods). A non-nil error is returned
	// to the caller of the step without performing it. The hook may also
	// block (scheduler) or panic (crash injection).
	Hook func(step string, args ...string) error

	Config map[gitstore.ConfigKey]string
}

var _ gitstore.Storer = (*Store)(nil)

func New() *Store {
	return &Store{DB: NewObjectDB(), Refs: map[string]string{}}
}

// Snapshot returns an independent store sharing the immutable object DB.
func (s *Store) Snapshot() *Store {
	n := &Store{DB: s.DB, Refs: make(map[string]string, len(s.Refs)), SigningKeyPEM: s.SigningKeyPEM, Config: s.Config}
	for k, v := range s.Refs {
		n.Refs[k] = v
	}
	return n
}

// RefsSnapshot / RestoreRefs give cheap undo for prefix-tree DFS.
func (s *Store) RefsSnapshot() map[string]string {
	m := make(map[string]string, len(s.Refs))
	for k, v := range s.Refs {
		m[k] = v
	}
	return m
}

func (s *Store) RestoreRefs(m map[string]string) {
	s.Refs = make(map[string]string, len(m))
	for k, v := range m {
		s.Refs[k] = v
	}
}

func (s *Store) step(name string, args ...string) error {
	if s.Hook != nil {
		return s.Hook(name, args...)
	}
	return nil
}

func mustHash(hexID string) githash.Hash {
	b, err := hex.DecodeString(hexID)
	if err != nil {
		panic(err)
	}
	return githash.Hash(b)
}

func (s *Store) get(id githash.Hash) (*object, bool) {
	o, ok := s.DB.objs[id.String()]
	return o, ok
}

func (s *Store) getKind(id githash.Hash, kind objKind) (*object, error) {
	o, ok := s.get(id)
	if !ok {
		return nil, fmt.Errorf("memstore: object '%s' not found", id.String())
	}
	if o.kind != kind {
		return nil, fmt.Errorf("memstore: requested Git ID '%s' is not a %s object", id.String(), kind)
	}
	return o, nil
}

// ---- references ----

func (s *Store) GetReference(refName string) (githash.Hash, error) {
	if err := s.step("GetReference", refName); err != nil {
		return githash.ZeroHash, err
	}
	id, ok := s.Refs[refName]
	if !ok {
		return githash.ZeroHash, gitstore.ErrReferenceNotFound
	}
	return mustHash(id), nil
}

func (s *Store) SetReference(refName string, gitID githash.Hash) error {
	if err := s.step("SetReference", refName, gitID.String()); err != nil {
		return err
	}
	return s.setRef(refName, gitID)
}

func (s *Store) setRef(refName string, gitID githash.Hash) error {
	if gitID.IsZero() {
		// `git update-ref <ref> 0000..` deletes the ref
		delete(s.Refs, refName)
		return nil
	}
	o, ok := s.get(gitID)
	if !ok {
		return fmt.Errorf("memstore: unable to set Git reference '%s' to '%s': object missing", refName, gitID.String())
	}
	if strings.HasPrefix(refName, "refs/heads/") && o.kind != kCommit {
		return fmt.Errorf("memstore: unable to set branch '%s' to non-commit '%s'", refName, gitID.String())
	}
	s.Refs[refName] = gitID.String()
	return nil
}

func (s *Store) DeleteReference(refName string) error {
	if err := s.step("DeleteReference", refName); err != nil {
		return err
	}
	delete(s.Refs, refName)
	return nil
}

func (s *Store) ResetDueToError(cause error, refName string, commitID githash.Hash) error {
	if err := s.step("ResetDueToError", refName, commitID.String()); err != nil {
		return fmt.Errorf("unable to reset %s to %s, caused by following error: %w", refName, commitID.String(), cause)
	}
	if err := s.setRef(refName, commitID); err != nil {
		return fmt.Errorf("unable to reset %s to %s, caused by following error: %w", refName, commitID.String(), cause)
	}
	return cause
}

func (s *Store) ZeroHash() githash.Hash { return githash.ZeroHash }

func (s *Store) LookupConfig(key gitstore.ConfigKey) (string, bool, error) {
	if err := s.step("LookupConfig", string(key)); err != nil {
		return "", false, err
	}
	switch key {
	case gitstore.ConfigUserName:
		return UserName, true, nil
	case gitstore.ConfigUserEmail:
		return UserEmail, true, nil
	}
	if v, ok := s.Config[key]; ok {
		return v, true, nil
	}
	return "", false, nil
}

// ---- blobs ----

func (s *Store) ReadBlob(blobID githash.Hash) ([]byte, error) {
	if err := s.step("ReadBlob", blobID.String()); err != nil {
		return nil, err
	}
	o, err := s.getKind(blobID, kBlob)
	if err != nil {
		return nil, err
	}
	return append([]byte(nil), o.data...), nil
}

func (s *Store) WriteBlob(contents []byte) (githash.Hash, error) {
	if err := s.step("WriteBlob"); err != nil {
		return githash.ZeroHash, err
	}
	id := s.DB.put(kBlob, append([]byte(nil), contents...), &object{})
	return mustHash(id), nil
}

// ---- trees ----

func (s *Store) EmptyTree() (githash.Hash, error) {
	if err := s.step("EmptyTree"); err != nil {
		return githash.ZeroHash, err
	}
	return mustHash(hashObject(kTree, nil)), nil
}

// gitTreeLess is git's tree entry order: names compared bytewise with
// directories treated as if they had a trailing '/'.
func gitTreeLess(a, b treeEnt) bool {
	an, bn := a.name, b.name
	if a.tree {
		an += "/"
	}
	if b.tree {
		bn += "/"
	}
	return an < bn
}

func (s *Store) writeTreeObj(ents []treeEnt) (string, error) {
	sorted := append([]treeEnt(nil), ents...)
	sort.SliceStable(sorted, func(i, j int) bool { return gitTreeLess(sorted[i], sorted[j]) })
	var buf bytes.Buffer
	for i, e := range sorted {
		if i > 0 && sorted[i-1].name == e.name {
			return "", fmt.Errorf("memstore: duplicate tree entry '%s'", e.name)
		}
		if e.name == "" || strings.ContainsAny(e.name, "/\x00") {
			return "", fmt.Errorf("memstore: invalid tree entry name %q", e.name)
		}
		if _, ok := s.DB.objs[e.id]; !ok {
			return "", fmt.Errorf("memstore: tree entry '%s' names missing object %s", e.name, e.id)
		}
		if e.tree {
			buf.WriteString("40000 ")
		} else {
			buf.WriteString("100644 ")
		}
		buf.WriteString(e.name)
		buf.WriteByte(0)
		raw, _ := hex.DecodeString(e.id)
		buf.Write(raw)
	}
	return s.DB.put(kTree, buf.Bytes(), &object{ents: sorted}), nil
}

type buildNode struct {
	children map[string]*buildNode
	order    []string
	leaf     *treeEnt // set for explicit entries
}

func (s *Store) WriteTree(entries []gitstore.TreeEntry) (githash.Hash, error) {
	if err := s.step("WriteTree"); err != nil {
		return githash.ZeroHash, err
	}
	return s.WriteTreeNoHook(entries)
}

// WriteTreeNoHook is WriteTree without a scheduling/fault step; harness use.
func (s *Store) WriteTreeNoHook(entries []gitstore.TreeEntry) (githash.Hash, error) {
	seen := make(map[string]struct{}, len(entries))
	for _, entry := range entries {
		if _, ok := seen[entry.Path]; ok {
			return githash.ZeroHash, fmt.Errorf("%w: %s", gitstore.ErrDuplicateTreePath, entry.Path)
		}
		seen[entry.Path] = struct{}{}
	}
	root := &buildNode{children: map[string]*buildNode{}}
	for _, entry := range entries {
		parts := strings.Split(entry.Path, "/")
		cur := root
		for i, part := range parts {
			if cur.leaf != nil {
				// something below an explicit entry: first one wins (as
				// gitinterface's TreeBuilder does)
				break
			}
			child, ok := cur.children[part]
			if !ok {
				child = &buildNode{children: map[string]*buildNode{}}
				cur.children[part] = child
				cur.order = append(cur.order, part)
				if i == len(parts)-1 {
					child.leaf = &treeEnt{name: part, id: entry.ID.String(), tree: entry.Kind == gitstore.KindSubtree}
				}
			}
			cur = child
		}
	}
	id, err := s.writeNode(root)
	if err != nil {
		return githash.ZeroHash, err
	}
	return mustHash(id), nil
}

func (s *Store) writeNode(n *buildNode) (string, error) {
	ents := make([]treeEnt, 0, len(n.order))
	for _, name := range n.order {
		c := n.children[name]
		if c.leaf != nil {
			ents = append(ents, *c.leaf)
			continue
		}
		id, err := s.writeNode(c)
		if err != nil {
			return "", err
		}
		ents = append(ents, treeEnt{name: name, id: id, tree: true})
	}
	return s.writeTreeObj(ents)
}

func (s *Store) flatten(treeID string, prefix string, out map[string]string) error {
	o, ok := s.DB.objs[treeID]
	if !ok || o.kind != kTree {
		return fmt.Errorf("memstore: '%s' is not a tree", treeID)
	}
	for _, e := range o.ents {
		p := e.name
		if prefix != "" {
			p = prefix + "/" + e.name
		}
		if e.tree {
			if err := s.flatten(e.id, p, out); err != nil {
				return err
			}
		} else {
			out[p] = e.id
		}
	}
	return nil
}

func (s *Store) GetAllFilesInTree(treeID githash.Hash) (map[string]githash.Hash, error) {
	if err := s.step("GetAllFilesInTree", treeID.String()); err != nil {
		return nil, err
	}
	// `git ls-tree -r <id>` peels commits to their tree
	tid := treeID.String()
	if o, ok := s.get(treeID); ok && o.kind == kCommit {
		tid = o.tree
	}
	flat := map[string]string{}
	if err := s.flatten(tid, "", flat); err != nil {
		return nil, err
	}
	if len(flat) == 0 {
		return nil, nil
	}
	out := make(map[string]githash.Hash, len(flat))
	for p, id := range flat {
		out[p] = mustHash(id)
	}
	return out, nil
}

func (s *Store) GetEntriesInTree(treeID githash.Hash) ([]gitstore.TreeEntry, error) {
	if err := s.step("GetEntriesInTree", treeID.String()); err != nil {
		return nil, err
	}
	return s.entriesInTree(treeID)
}

func (s *Store) entriesInTree(treeID githash.Hash) ([]gitstore.TreeEntry, error) {
	o, ok := s.get(treeID)
	if ok && o.kind == kCommit {
		o, ok = s.DB.objs[o.tree]
	}
	if !ok || o.kind != kTree {
		return nil, fmt.Errorf("memstore: unable to enumerate items in tree '%s'", treeID.String())
	}
	if len(o.ents) == 0 {
		return nil, nil
	}
	out := make([]gitstore.TreeEntry, 0, len(o.ents))
	for _, e := range o.ents {
		k := gitstore.KindBlob
		if e.tree {
			k = gitstore.KindSubtree
		}
		out = append(out, gitstore.TreeEntry{Path: e.name, ID: mustHash(e.id), Kind: k})
	}
	return out, nil
}

var ErrTreeDoesNotHavePath = errors.New("tree does not have requested path")

func (s *Store) GetPathIDInTree(treeID githash.Hash, treePath string) (githash.Hash, error) {
	if err := s.step("GetPathIDInTree", treeID.String(), treePath); err != nil {
		return nil, err
	}
	treePath = strings.TrimSuffix(treePath, "/")
	components := strings.Split(treePath, "/")
	cur := treeID
	for len(components) != 0 {
		entries, err := s.entriesInTree(cur)
		if err != nil {
			return nil, err
		}
		found := false
		for _, e := range entries {
			if e.Path == components[0] {
				cur = e.ID
				found = true
				break
			}
		}
		if !found {
			return nil, fmt.Errorf("%w: %s", ErrTreeDoesNotHavePath, treePath)
		}
		components = components[1:]
	}
	return cur, nil
}

// ---- commits ----

func (s *Store) GetCommitTreeID(commitID githash.Hash) (githash.Hash, error) {
	if err := s.step("GetCommitTreeID", commitID.String()); err != nil {
		return githash.ZeroHash, err
	}
	o, err := s.getKind(commitID, kCommit)
	if err != nil {
		return githash.ZeroHash, err
	}
	return mustHash(o.tree), nil
}

func (s *Store) GetCommitMessage(commitID githash.Hash) (string, error) {
	if err := s.step("GetCommitMessage", commitID.String()); err != nil {
		return "", err
	}
	o, err := s.getKind(commitID, kCommit)
	if err != nil {
		return "", err
	}
	// gitinterface: `git show -s --format=%B` + TrimSpace
	return strings.TrimSpace(o.message), nil
}

func (s *Store) GetCommitParentIDs(commitID githash.Hash) ([]githash.Hash, error) {
	if err := s.step("GetCommitParentIDs", commitID.String()); err != nil {
		return nil, err
	}
	o, err := s.getKind(commitID, kCommit)
	if err != nil {
		return nil, err
	}
	if len(o.parents) == 0 {
		return nil, nil
	}
	out := make([]githash.Hash, 0, len(o.parents))
	for _, p := range o.parents {
		out = append(out, mustHash(p))
	}
	return out, nil
}

func (s *Store) ancestors(start string) map[string]bool {
	seen := map[string]bool{}
	stack := []string{start}
	for len(stack) > 0 {
		id := stack[len(stack)-1]
		stack = stack[:len(stack)-1]
		if seen[id] {
			continue
		}
		seen[id] = true
		if o, ok := s.DB.objs[id]; ok && o.kind == kCommit {
			stack = append(stack, o.parents...)
		}
	}
	return seen
}

func (s *Store) isAncestor(ancestor, commit string) bool {
	if ancestor == commit {
		return true
	}
	// fast path for linear chains (the RSL): follow first parents
	stack := []string{commit}
	seen := map[string]bool{}
	for len(stack) > 0 {
		id := stack[len(stack)-1]
		stack = stack[:len(stack)-1]
		if id == ancestor {
			return true
		}
		if seen[id] {
			continue
		}
		seen[id] = true
		if o, ok := s.DB.objs[id]; ok && o.kind == kCommit {
			stack = append(stack, o.parents...)
		}
	}
	return false
}

func (s *Store) GetCommitsBetweenRange(commitNewID, commitOldID githash.Hash) ([]githash.Hash, error) {
	if err := s.step("GetCommitsBetweenRange", commitNewID.String(), commitOldID.String()); err != nil {
		return nil, err
	}
	if _, err := s.peelToCommit(commitNewID); err != nil {
		return nil, fmt.Errorf("unable to enumerate commits in range: %w", err)
	}
	newC, _ := s.peelToCommit(commitNewID)
	exclude := map[string]bool{}
	if !commitOldID.IsZero() {
		oldC, err := s.peelToCommit(commitOldID)
		if err != nil {
			return nil, fmt.Errorf("unable to enumerate commits in range: %w", err)
		}
		exclude = s.ancestors(oldC)
	}
	ids := []string{}
	for id := range s.ancestors(newC) {
		if !exclude[id] {
			ids = append(ids, id)
		}
	}
	sort.Strings(ids)
	out := make([]githash.Hash, 0, len(ids))
	for _, id := range ids {
		out = append(out, mustHash(id))
	}
	return out, nil
}

func (s *Store) peelToCommit(id githash.Hash) (string, error) {
	cur := id.String()
	for i := 0; i < 16; i++ {
		o, ok := s.DB.objs[cur]
		if !ok {
			return "", fmt.Errorf("memstore: object '%s' not found", cur)
		}
		switch o.kind {
		case kCommit:
			return cur, nil
		case kTag:
			cur = o.target
		default:
			return "", fmt.Errorf("memstore: object '%s' is a %s, cannot peel to commit", cur, o.kind)
		}
	}
	return "", fmt.Errorf("memstore: tag chain too deep")
}

func (s *Store) diffPaths(treeA, treeB string) ([]string, error) {
	a, b := map[string]string{}, map[string]string{}
	if err := s.flatten(treeA, "", a); err != nil {
		return nil, err
	}
	if err := s.flatten(treeB, "", b); err != nil {
		return nil, err
	}
	set := map[string]bool{}
	for p, id := range a {
		if b[p] != id {
			set[p] = true
		}
	}
	for p, id := range b {
		if a[p] != id {
			set[p] = true
		}
	}
	out := make([]string, 0, len(set))
	for p := range set {
		out = append(out, p)
	}
	sort.Strings(out)
	return out, nil
}

func (s *Store) GetFilePathsChangedByCommit(commitID githash.Hash) ([]string, error) {
	if err := s.step("GetFilePathsChangedByCommit", commitID.String()); err != nil {
		return nil, err
	}
	o, err := s.getKind(commitID, kCommit)
	if err != nil {
		return nil, err
	}
	switch len(o.parents) {
	case 0:
		flat := map[string]string{}
		if err := s.flatten(o.tree, "", flat); err != nil {
			return nil, err
		}
		paths := make([]string, 0, len(flat))
		for p := range flat {
			paths = append(paths, p)
		}
		sort.Strings(paths)
		if len(paths) == 0 {
			// gitinterface: strings.Split("", "\n") == [""]
			return []string{""}, nil
		}
		return paths, nil
	case 1:
		p, err := s.getKind(mustHash(o.parents[0]), kCommit)
		if err != nil {
			return nil, err
		}
		paths, err := s.diffPaths(p.tree, o.tree)
		if err != nil {
			return nil, err
		}
		if len(paths) == 0 {
			return nil, nil
		}
		return paths, nil
	default:
		last, err := s.getKind(mustHash(o.parents[len(o.parents)-1]), kCommit)
		if err != nil {
			return nil, err
		}
		paths, err := s.diffPaths(last.tree, o.tree)
		if err != nil {
			return nil, err
		}
		if len(paths) == 0 {
			return nil, nil
		}
		set := map[string]bool{}
		for _, pid := range o.parents {
			p, err := s.getKind(mustHash(pid), kCommit)
			if err != nil {
				return nil, err
			}
			ps, err := s.diffPaths(p.tree, o.tree)
			if err != nil {
				return nil, err
			}
			for _, x := range ps {
				set[x] = true
			}
		}
		out := make([]string, 0, len(set))
		for p := range set {
			out = append(out, p)
		}
		sort.Strings(out)
		return out, nil
	}
}

func (s *Store) KnowsCommit(commitID, ancestorID githash.Hash) (bool, error) {
	if err := s.step("KnowsCommit", commitID.String(), ancestorID.String()); err != nil {
		return false, err
	}
	if _, err := s.getKind(commitID, kCommit); err != nil {
		return false, err
	}
	if _, err := s.getKind(ancestorID, kCommit); err != nil {
		return false, err
	}
	return s.isAncestor(ancestorID.String(), commitID.String()), nil
}

// ErrMergeUnsupported is returned by GetMergeTree for shapes the stub does not
// define (conflicts, criss-cross). Documented deviation: lane M never needs it.
var ErrMergeUnsupported = errors.New("memstore: merge shape not supported (conflict or multiple merge bases)")

func (s *Store) GetMergeTree(commitAID, commitBID githash.Hash) (githash.Hash, error) {
	if err := s.step("GetMergeTree", commitAID.String(), commitBID.String()); err != nil {
		return githash.ZeroHash, err
	}
	b, err := s.getKind(commitBID, kCommit)
	if err != nil {
		return githash.ZeroHash, err
	}
	if commitAID.IsZero() {
		return mustHash(b.tree), nil
	}
	a, err := s.getKind(commitAID, kCommit)
	if err != nil {
		return githash.ZeroHash, err
	}
	aID, bID := commitAID.String(), commitBID.String()
	if s.isAncestor(aID, bID) {
		return mustHash(b.tree), nil
	}
	if s.isAncestor(bID, aID) {
		return mustHash(a.tree), nil
	}
	// single best common ancestor
	ancA := s.ancestors(aID)
	common := []string{}
	for id := range s.ancestors(bID) {
		if ancA[id] {
			common = append(common, id)
		}
	}
	best := []string{}
	for _, c := range common {
		dominated := false
		for _, d := range common {
			if c != d && s.isAncestor(c, d) {
				dominated = true
				break
			}
		}
		if !dominated {
			best = append(best, c)
		}
	}
	baseTree := hashObject(kTree, nil)
	switch len(best) {
	case 0:
	case 1:
		baseTree = s.DB.objs[best[0]].tree
	default:
		return githash.ZeroHash, ErrMergeUnsupported
	}
	base, fa, fb := map[string]string{}, map[string]string{}, map[string]string{}
	if err := s.flatten(baseTree, "", base); err != nil {
		return githash.ZeroHash, err
	}
	if err := s.flatten(a.tree, "", fa); err != nil {
		return githash.ZeroHash, err
	}
	if err := s.flatten(b.tree, "", fb); err != nil {
		return githash.ZeroHash, err
	}
	paths := map[string]bool{}
	for p := range base {
		paths[p] = true
	}
	for p := range fa {
		paths[p] = true
	}
	for p := range fb {
		paths[p] = true
	}
	merged := []gitstore.TreeEntry{}
	for p := range paths {
		o, x, y := base[p], fa[p], fb[p]
		var pick string
		switch {
		case x == y:
			pick = x
		case x == o:
			pick = y
		case y == o:
			pick = x
		default:
			return githash.ZeroHash, ErrMergeUnsupported
		}
		if pick != "" {
			merged = append(merged, gitstore.TreeEntry{Path: p, ID: mustHash(pick), Kind: gitstore.KindBlob})
		}
	}
	// directory/file conflicts
	for _, e := range merged {
		for _, f := range merged {
			if strings.HasPrefix(f.Path, e.Path+"/") {
				return githash.ZeroHash, ErrMergeUnsupported
			}
		}
	}
	return s.WriteTreeNoHook(merged)
}

func (s *Store) GetTagTarget(tagID githash.Hash) (githash.Hash, error) {
	if err := s.step("GetTagTarget", tagID.String()); err != nil {
		return githash.ZeroHash, err
	}
	// gitinterface: `git rev-list -n 1 <id>`: peels tags, identity on commits
	c, err := s.peelToCommit(tagID)
	if err != nil {
		return githash.ZeroHash, fmt.Errorf("unable to resolve tag's target ID: %w", err)
	}
	return mustHash(c), nil
}

func (s *Store) GetObjectSignature(objectID githash.Hash) ([]byte, []byte, error) {
	if err := s.step("GetObjectSignature", objectID.String()); err != nil {
		return nil, nil, err
	}
	o, ok := s.get(objectID)
	if !ok || (o.kind != kCommit && o.kind != kTag) {
		return nil, nil, errors.New("invalid object type, expected commit or tag for signature verification")
	}
	return append([]byte(nil), o.payload...), []byte(o.sig), nil
}

func identLine() string {
	return fmt.Sprintf("%s <%s> %d +0000", UserName, UserEmail, FixedTime.Unix())
}

// EncodeCommit returns (full encoding, payload without signature).
func EncodeCommit(tree string, parents []string, message, sig string) ([]byte, []byte) {
	var head bytes.Buffer
	fmt.Fprintf(&head, "tree %s\n", tree)
	for _, p := range parents {
		fmt.Fprintf(&head, "parent %s\n", p)
	}
	fmt.Fprintf(&head, "author %s\ncommitter %s", identLine(), identLine())
	payload := append(append([]byte(nil), head.Bytes()...), []byte("\n\n"+message)...)
	if sig == "" {
		return payload, payload
	}
	full := append([]byte(nil), head.Bytes()...)
	full = append(full, []byte("\ngpgsig ")...)
	lines := strings.Split(strings.TrimSuffix(sig, "\n"), "\n")
	full = append(full, []byte(strings.Join(lines, "\n "))...)
	full = append(full, []byte("\n\n"+message)...)
	return full, payload
}

// SignSSH produces the armored sshsig git and gittuf use (namespace "git", sha512).
func SignSSH(contents, pemKey []byte) (string, error) {
	signer, err := ssh.ParsePrivateKey(pemKey)
	if err != nil {
		return "", err
	}
	sig, err := sshsig.Sign(bytes.NewReader(contents), signer, sshsig.HashSHA512, "git")
	if err != nil {
		return "", err
	}
	return string(sshsig.Armor(sig)), nil
}

// PutCommit writes a commit object without touching any ref (harness use:
// building commit DAGs, tampered RSL entries).
func (s *Store) PutCommit(tree githash.Hash, parents []githash.Hash, message string, keyPEM []byte) (githash.Hash, error) {
	ps := make([]string, 0, len(parents))
	for _, p := range parents {
		ps = append(ps, p.String())
	}
	sig := ""
	if keyPEM != nil {
		_, payload := EncodeCommit(tree.String(), ps, message, "")
		var err error
		sig, err = SignSSH(payload, keyPEM)
		if err != nil {
			return githash.ZeroHash, err
		}
	}
	full, payload := EncodeCommit(tree.String(), ps, message, sig)
	id := s.DB.put(kCommit, full, &object{tree: tree.String(), parents: ps, message: message, payload: payload, sig: sig})
	return mustHash(id), nil
}

// EncodeTag returns the full encoding of an annotated tag.
func EncodeTag(target, targetKind, name, message string, keyPEM []byte) ([]byte, error) {
	if !strings.HasSuffix(message, "\n") {
		message += "\n"
	}
	payload := []byte(fmt.Sprintf("object %s\ntype %s\ntag %s\ntagger %s\n\n%s", target, targetKind, name, identLine(), message))
	if keyPEM == nil {
		return payload, nil
	}
	sig, err := SignSSH(payload, keyPEM)
	if err != nil {
		return nil, err
	}
	return append(append([]byte(nil), payload...), []byte(sig)...), nil
}

// PutTag writes an annotated tag object (harness use).
func (s *Store) PutTag(target githash.Hash, name, message string, keyPEM []byte) (githash.Hash, error) {
	t, ok := s.get(target)
	if !ok {
		return githash.ZeroHash, fmt.Errorf("memstore: tag target missing")
	}
	full, err := EncodeTag(target.String(), t.kind.String(), name, message, keyPEM)
	if err != nil {
		return githash.ZeroHash, err
	}
	payload, sig := full, ""
	if i := bytes.Index(full, []byte("-----BEGIN SSH SIGNATURE-----")); i >= 0 {
		payload, sig = full[:i], string(full[i:])
	}
	id := s.DB.put(kTag, full, &object{payload: payload, sig: sig, target: target.String(), tkind: t.kind})
	return mustHash(id), nil
}

func (s *Store) commit(treeID githash.Hash, targetRef, message string, keyPEM []byte) (githash.Hash, error) {
	// step 1: read tip
	if err := s.step("Commit.read", targetRef); err != nil {
		return githash.ZeroHash, err
	}
	tip, hasTip := s.Refs[targetRef]
	// step 2: write object
	if err := s.step("Commit.write", targetRef); err != nil {
		return githash.ZeroHash, err
	}
	if _, err := s.getKind(treeID, kTree); err != nil {
		return githash.ZeroHash, fmt.Errorf("unable to create commit: %w", err)
	}
	var parents []githash.Hash
	if hasTip {
		parents = []githash.Hash{mustHash(tip)}
	}
	id, err := s.PutCommit(treeID, parents, message, keyPEM)
	if err != nil {
		return githash.ZeroHash, err
	}
	// step 3: compare-and-set
	if err := s.step("Commit.cas", targetRef); err != nil {
		return id, err
	}
	cur, hasCur := s.Refs[targetRef]
	if hasCur != hasTip || cur != tip {
		return id, fmt.Errorf("unable to set Git reference '%s' to '%s': reference changed concurrently", targetRef, id.String())
	}
	s.Refs[targetRef] = id.String()
	return id, nil
}

func (s *Store) Commit(treeID githash.Hash, targetRef, message string, sign bool) (githash.Hash, error) {
	// `git commit-tree -m` completes the message with a newline
	if !strings.HasSuffix(message, "\n") {
		message += "\n"
	}
	var key []byte
	if sign {
		if s.SigningKeyPEM == nil {
			return githash.ZeroHash, errors.New("memstore: signing requested but no signing key configured")
		}
		key = s.SigningKeyPEM
	}
	return s.commit(treeID, targetRef, message, key)
}

func (s *Store) CommitUsingSpecificKey(treeID githash.Hash, targetRef, message string, signingKeyPEMBytes []byte) (githash.Hash, error) {
	return s.commit(treeID, targetRef, message, signingKeyPEMBytes)
}

// ---- harness-side raw inspection (independent of pkg/rsl) ----

type RawCommit struct {
	ID      string
	Tree    string
	Parents []string
	Message string
	Signed  bool
}

func (s *Store) RawCommit(id string) (RawCommit, bool) {
	o, ok := s.DB.objs[id]
	if !ok || o.kind != kCommit {
		return RawCommit{}, false
	}
	return RawCommit{ID: id, Tree: o.tree, Parents: append([]string(nil), o.parents...), Message: strings.TrimSpace(o.message), Signed: o.sig != ""}, true
}

func (s *Store) Kind(id string) string {
	o, ok := s.DB.objs[id]
	if !ok {
		return ""
	}
	return o.kind.String()
}

func (s *Store) Ref(name string) string { return s.Refs[name] }

func (s *Store) RawObject(id string) (string, []byte, bool) {
	o, ok := s.DB.objs[id]
	if !ok {
		return "", nil, false
	}
	return o.kind.String(), o.data, true
}
