// Package world holds the small builders shared by the explorers: policy
// metadata and envelopes, direct publication of policy states into a store,
// commit DAGs, and recording helpers. Everything is deterministic (fixed
// expiry string, fixed clock in memstore).
package world

import (
	"context"
	"encoding/base64"
	"encoding/json"
	"fmt"
	"sort"

	"github.com/gittuf/gittuf/internal/common/set"
	"github.com/gittuf/gittuf/internal/policy"
	sslibdsse "github.com/gittuf/gittuf/internal/third_party/go-securesystemslib/dsse"
	"github.com/gittuf/gittuf/internal/tuf"
	tufv02 "github.com/gittuf/gittuf/internal/tuf/v02"
	"github.com/gittuf/gittuf/pkg/githash"
	"github.com/gittuf/gittuf/pkg/gitstore"
	"github.com/gittuf/gittuf/pkg/rsl"
	"github.com/gittuf/gittuf/verif/keys"
	"github.com/gittuf/gittuf/verif/memstore"
)

const (
	Expires     = "2099-01-01T00:00:00Z"
	PayloadType = "application/vnd.gittuf+json"
)

var Ctx = context.Background()

// Backend is what scenario builders need: gittuf's storage interface plus raw
// object writes (to build commit DAGs and tampered objects without moving refs).
// *memstore.Store and *gitback.Repo implement it.
type Backend interface {
	gitstore.Storer
	PutCommit(tree githash.Hash, parents []githash.Hash, message string, keyPEM []byte) (githash.Hash, error)
	PutTag(target githash.Hash, name, message string, keyPEM []byte) (githash.Hash, error)
}

// Root builds v02 root metadata with the given root and primary-rule-file keys.
func Root(version uint64, rootPrincipals []tuf.Principal, rootThreshold int, targetsPrincipals []tuf.Principal, targetsThreshold int) *tufv02.RootMetadata {
	r := tufv02.NewRootMetadata()
	r.SetExpires(Expires)
	r.Version = version
	r.Principals = map[string]tuf.Principal{}
	r.Roles = map[string]tufv02.Role{}
	ids := set.NewSet[string]()
	for _, p := range rootPrincipals {
		r.Principals[p.ID()] = p
		ids.Add(p.ID())
	}
	r.Roles[tuf.RootRoleName] = tufv02.Role{PrincipalIDs: ids, Threshold: rootThreshold}
	if targetsPrincipals != nil {
		tids := set.NewSet[string]()
		for _, p := range targetsPrincipals {
			r.Principals[p.ID()] = p
			tids.Add(p.ID())
		}
		r.Roles[tuf.TargetsRoleName] = tufv02.Role{PrincipalIDs: tids, Threshold: targetsThreshold}
	}
	return r
}

// RuleSpec describes one rule of a rule file.
type RuleSpec struct {
	Name        string
	Patterns    []string
	Principals  []string // principal IDs
	Threshold   int
	Terminating bool
}

// Targets builds a v02 rule file: the given principals, the rules in order,
// then the allow rule.
func Targets(version uint64, principals []tuf.Principal, rules []RuleSpec) *tufv02.TargetsMetadata {
	t := tufv02.NewTargetsMetadata()
	t.SetExpires(Expires)
	t.Version = version
	t.Delegations = &tufv02.Delegations{Principals: map[string]tuf.Principal{}, Roles: []*tufv02.Delegation{}}
	for _, p := range principals {
		t.Delegations.Principals[p.ID()] = p
	}
	for _, r := range rules {
		t.Delegations.Roles = append(t.Delegations.Roles, &tufv02.Delegation{
			Name:        r.Name,
			Paths:       r.Patterns,
			Terminating: r.Terminating,
			Role:        tufv02.Role{PrincipalIDs: set.NewSetFromItems(r.Principals...), Threshold: r.Threshold},
		})
	}
	t.Delegations.Roles = append(t.Delegations.Roles, tufv02.AllowRule())
	return t
}

// Envelope wraps metadata in a DSSE envelope signed by the given keys.
func Envelope(md any, signers ...*keys.Key) *sslibdsse.Envelope {
	b, err := json.Marshal(md)
	if err != nil {
		panic(err)
	}
	env := &sslibdsse.Envelope{PayloadType: PayloadType, Payload: base64.StdEncoding.EncodeToString(b), Signatures: []sslibdsse.Signature{}}
	for _, k := range signers {
		if err := keys.SignEnvelope(env, k); err != nil {
			panic(err)
		}
	}
	return env
}

// State assembles a policy state from envelopes.
func State(root, targets *sslibdsse.Envelope, delegations map[string]*sslibdsse.Envelope) *policy.State {
	return &policy.State{Metadata: &policy.StateMetadata{RootEnvelope: root, TargetsEnvelope: targets, DelegationEnvelopes: delegations}}
}

// PublishPolicy commits the state on top of the policy-staging ref, points the
// policy ref at that commit and records an RSL entry for the policy ref,
// WITHOUT any validation (unlike policy.Apply). It returns the policy commit.
func PublishPolicy(ms gitstore.Storer, st *policy.State, withStagingEntry bool) (githash.Hash, error) {
	if err := st.Commit(ms, "policy", withStagingEntry, false); err != nil {
		return nil, err
	}
	tip, err := ms.GetReference(policy.PolicyStagingRef)
	if err != nil {
		return nil, err
	}
	if err := ms.SetReference(policy.PolicyRef, tip); err != nil {
		return nil, err
	}
	if err := rsl.NewReferenceEntry(policy.PolicyRef, tip).Commit(ms, false); err != nil {
		return nil, err
	}
	return tip, nil
}

// Record records a reference entry, signed by key (nil = unsigned).
func Record(ms gitstore.Storer, ref string, target githash.Hash, key *keys.Key) error {
	e := rsl.NewReferenceEntry(ref, target)
	if key == nil {
		return e.Commit(ms, false)
	}
	return e.CommitUsingSpecificKey(ms, key.PEM)
}

// Annotate records an annotation, signed by key (nil = unsigned).
func Annotate(ms gitstore.Storer, ids []githash.Hash, skip bool, msg string, key *keys.Key) error {
	a := rsl.NewAnnotationEntry(ids, skip, msg)
	if key == nil {
		return a.Commit(ms, false)
	}
	return a.CommitUsingSpecificKey(ms, key.PEM)
}

// Tree writes a tree {path: content}.
func Tree(ms Backend, files map[string]string) githash.Hash {
	entries := []gitstore.TreeEntry{}
	paths := make([]string, 0, len(files))
	for p := range files {
		paths = append(paths, p)
	}
	sort.Strings(paths)
	for _, p := range paths {
		c := files[p]
		id, err := ms.WriteBlob([]byte(c))
		if err != nil {
			panic(err)
		}
		entries = append(entries, gitstore.TreeEntry{Path: p, ID: id, Kind: gitstore.KindBlob})
	}
	sort.Slice(entries, func(i, j int) bool { return entries[i].Path < entries[j].Path })
	id, err := ms.WriteTree(entries)
	if err != nil {
		panic(err)
	}
	return id
}

// Commit writes a commit object (no ref update), signed by key (nil = unsigned).
func Commit(ms Backend, tree githash.Hash, parents []githash.Hash, msg string, key *keys.Key) githash.Hash {
	var pem []byte
	if key != nil {
		pem = key.PEM
	}
	id, err := ms.PutCommit(tree, parents, msg+"\n", pem)
	if err != nil {
		panic(err)
	}
	return id
}

// RSLEntry is the harness's own view of one raw RSL commit.
type RSLEntry struct {
	ID      string
	Parents []string
	Text    string
}

// WalkRSL reads the raw commit chain under the RSL ref, newest first, using
// only memstore (never pkg/rsl). It follows the first parent and reports every
// commit's full parent list.
func WalkRSL(ms *memstore.Store) []RSLEntry {
	out := []RSLEntry{}
	cur := ms.Ref(rsl.Ref)
	seen := map[string]bool{}
	for cur != "" && !seen[cur] {
		seen[cur] = true
		c, ok := ms.RawCommit(cur)
		if !ok {
			out = append(out, RSLEntry{ID: cur, Text: fmt.Sprintf("<not a commit: %s>", ms.Kind(cur))})
			break
		}
		out = append(out, RSLEntry{ID: c.ID, Parents: c.Parents, Text: c.Message})
		if len(c.Parents) == 0 {
			break
		}
		cur = c.Parents[0]
	}
	return out
}
