package world

import (
	"strconv"
	"strings"
)

// ParsedText is the harness's own, deliberately strict reading of an RSL entry
// text. It shares no code with pkg/rsl's parsers.
type ParsedText struct {
	Kind     string // "reference", "annotation", "propagation", "" if not an entry
	Fields   [][2]string
	Number   uint64
	Ref      string
	Target   string
	EntryIDs []string
	Skip     string
	Upstream string
	UpEntry  string
	WellForm bool
}

// ParseText tokenises text. WellForm is true only for texts in exactly the
// documented layout (header, blank, known keys in the documented order, each
// at most once except entryID, then an optional message block).
func ParseText(text string) ParsedText {
	p := ParsedText{}
	lines := strings.Split(text, "\n")
	if len(lines) < 3 || lines[1] != "" {
		return p
	}
	var order []string
	switch lines[0] {
	case "RSL Reference Entry":
		p.Kind = "reference"
		order = []string{"ref", "targetID", "number"}
	case "RSL Annotation Entry":
		p.Kind = "annotation"
		order = []string{"entryID", "skip", "number"}
	case "RSL Propagation Entry":
		p.Kind = "propagation"
		order = []string{"ref", "targetID", "upstreamRepository", "upstreamEntryID", "number"}
	default:
		return p
	}
	pos := 0
	ok := true
	for _, line := range lines[2:] {
		if line == "-----BEGIN MESSAGE-----" {
			break
		}
		i := strings.Index(line, ": ")
		if i < 0 {
			ok = false
			continue
		}
		k, v := line[:i], line[i+2:]
		p.Fields = append(p.Fields, [2]string{k, v})
		// find k at or after pos
		found := -1
		for j := pos; j < len(order); j++ {
			if order[j] == k {
				found = j
				break
			}
		}
		if found < 0 {
			ok = false
			continue
		}
		if k == "entryID" {
			pos = found // may repeat
		} else {
			pos = found + 1
		}
		switch k {
		case "ref":
			p.Ref = v
		case "targetID":
			p.Target = v
		case "entryID":
			p.EntryIDs = append(p.EntryIDs, v)
		case "skip":
			p.Skip = v
		case "upstreamRepository":
			p.Upstream = v
		case "upstreamEntryID":
			p.UpEntry = v
		case "number":
			n, err := strconv.ParseUint(v, 10, 64)
			if err != nil {
				ok = false
			}
			p.Number = n
		}
	}
	switch p.Kind {
	case "reference":
		ok = ok && p.Ref != "" && isHex(p.Target)
	case "annotation":
		ok = ok && len(p.EntryIDs) > 0 && (p.Skip == "true" || p.Skip == "false")
		for _, id := range p.EntryIDs {
			ok = ok && isHex(id)
		}
	case "propagation":
		ok = ok && p.Ref != "" && isHex(p.Target) && p.Upstream != "" && isHex(p.UpEntry)
	}
	p.WellForm = ok
	return p
}

func isHex(s string) bool {
	if len(s) != 40 && len(s) != 64 {
		return false
	}
	for _, c := range s {
		if !(c >= '0' && c <= '9' || c >= 'a' && c <= 'f') {
			return false
		}
	}
	return true
}

// CheckChain verifies, on raw commits only, that log (newest first) is one
// chain with consecutive numbering. It returns "" or a description.
func CheckChain(log []RSLEntry) string {
	for i, e := range log {
		p := ParseText(e.Text)
		if !p.WellForm {
			return "entry " + e.ID + " is not a well-formed RSL entry: " + strconv.Quote(e.Text)
		}
		last := i == len(log)-1
		if last {
			if len(e.Parents) != 0 {
				return "walk ended at " + e.ID + " which still has parents"
			}
			if p.Number > 1 {
				return "first entry " + e.ID + " has number " + strconv.FormatUint(p.Number, 10)
			}
			continue
		}
		if len(e.Parents) != 1 {
			return "entry " + e.ID + " has " + strconv.Itoa(len(e.Parents)) + " parents"
		}
		pp := ParseText(log[i+1].Text)
		switch {
		case p.Number == 0:
			if pp.Number != 0 {
				return "unnumbered entry " + e.ID + " follows numbered entry " + log[i+1].ID
			}
		case p.Number == 1:
			if pp.Number != 0 {
				return "entry " + e.ID + " has number 1 but its parent is numbered " + strconv.FormatUint(pp.Number, 10)
			}
		default:
			if pp.Number != p.Number-1 {
				return "entry " + e.ID + " has number " + strconv.FormatUint(p.Number, 10) + " but its parent has " + strconv.FormatUint(pp.Number, 10)
			}
		}
	}
	return ""
}
