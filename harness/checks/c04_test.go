package checks

import (
	"errors"
	"fmt"
	"sort"
	"strings"
	"testing"

	"github.com/gittuf/gittuf/pkg/githash"
	"github.com/gittuf/gittuf/pkg/rsl"
	"github.com/gittuf/gittuf/verif/evid"
	"github.com/gittuf/gittuf/verif/memstore"
	"github.com/gittuf/gittuf/verif/world"
)

// C04 — every query of pkg/rsl's readers on every log of a bounded alphabet is
// compared with a list comprehension over the abstract log; single-point
// corruptions must make the readers fail closed.

const (
	c04Ref = iota
	c04Prop
	c04Annot
)

type c04Entry struct {
	Kind     int    `json:"kind"`
	Ref      string `json:"ref,omitempty"`
	Target   int    `json:"target,omitempty"`
	Upstream string `json:"upstream,omitempty"`
	Names    []int  `json:"names,omitempty"` // annotation: indices of named entries
	Skip     bool   `json:"skip,omitempty"`
	Legacy   bool   `json:"legacy,omitempty"`
	id       githash.Hash
	number   uint64
}

func (e c04Entry) String() string {
	l := ""
	if e.Legacy {
		l = "~"
	}
	switch e.Kind {
	case c04Ref:
		return fmt.Sprintf("%sref(%s,c%d)", l, strings.TrimPrefix(e.Ref, "refs/"), e.Target)
	case c04Prop:
		return fmt.Sprintf("%sprop(%s,%s)", l, strings.TrimPrefix(e.Ref, "refs/"), e.Upstream)
	default:
		return fmt.Sprintf("%sannot(%v,skip=%v)", l, e.Names, e.Skip)
	}
}

type c04World struct {
	commits []githash.Hash // c0 <- c1 <- c2, c3 unrelated
	knows   [][]bool       // knows[a][b]: b is ancestor-or-equal of a
}

func c04BuildWorld(ms *memstore.Store) *c04World {
	w := &c04World{}
	t := world.Tree(ms, map[string]string{"f": "x"})
	c0 := world.Commit(ms, t, nil, "c0", nil)
	c1 := world.Commit(ms, t, []githash.Hash{c0}, "c1", nil)
	c2 := world.Commit(ms, t, []githash.Hash{c1}, "c2", nil)
	c3 := world.Commit(ms, t, nil, "unrelated", nil)
	w.commits = []githash.Hash{c0, c1, c2, c3}
	w.knows = [][]bool{{true, false, false, false}, {true, true, false, false}, {true, true, true, false}, {false, false, false, true}}
	return w
}

const (
	c04Main   = "refs/heads/main"
	c04Feat   = "refs/heads/feat"
	c04Policy = "refs/gittuf/policy"
	c04Stage  = "refs/gittuf/policy-staging"
	c04Att    = "refs/gittuf/attestations"
	c04U1     = "https://up/one"
	c04U2     = "https://up/two"
)

func c04Menu(n int, reduced bool) []c04Entry {
	m := []c04Entry{
		{Kind: c04Ref, Ref: c04Main, Target: 0},
		{Kind: c04Ref, Ref: c04Main, Target: 2},
		{Kind: c04Ref, Ref: c04Feat, Target: 1},
		{Kind: c04Ref, Ref: c04Policy, Target: 1},
		{Kind: c04Prop, Ref: c04Main, Target: 1, Upstream: c04U1},
	}
	if !reduced {
		m = append(m,
			c04Entry{Kind: c04Ref, Ref: c04Feat, Target: 3},
			c04Entry{Kind: c04Ref, Ref: c04Stage, Target: 1},
			c04Entry{Kind: c04Ref, Ref: c04Att, Target: 1},
			c04Entry{Kind: c04Prop, Ref: c04Main, Target: 2, Upstream: c04U2},
		)
	}
	for a := 0; a < n; a++ {
		for _, skip := range []bool{true, false} {
			m = append(m, c04Entry{Kind: c04Annot, Names: []int{a}, Skip: skip})
			if reduced {
				continue
			}
			for b := a + 1; b < n; b++ {
				m = append(m, c04Entry{Kind: c04Annot, Names: []int{a, b}, Skip: skip})
			}
		}
	}
	return m
}

func c04Append(ms *memstore.Store, w *c04World, log []c04Entry, e c04Entry) (c04Entry, error) {
	var err error
	switch e.Kind {
	case c04Ref:
		r := rsl.NewReferenceEntry(e.Ref, w.commits[e.Target])
		if e.Legacy {
			err = r.CommitWithoutNumber(ms)
		} else {
			err = r.Commit(ms, false)
		}
	case c04Prop:
		err = rsl.NewPropagationEntry(e.Ref, w.commits[e.Target], e.Upstream, w.commits[0]).Commit(ms, false)
	case c04Annot:
		ids := []githash.Hash{}
		for _, i := range e.Names {
			ids = append(ids, log[i].id)
		}
		a := rsl.NewAnnotationEntry(ids, e.Skip, "")
		if e.Legacy {
			err = a.CommitWithoutNumber(ms)
		} else {
			err = a.Commit(ms, false)
		}
	}
	if err != nil {
		return e, err
	}
	e.id, _ = githash.NewHash(ms.Ref(rsl.Ref))
	if !e.Legacy {
		e.number = 1
		if len(log) > 0 {
			e.number = log[len(log)-1].number + 1
		}
	}
	return e, nil
}

// ---- reference model (list comprehension over the abstract log) ----

func c04AnnotationsOf(log []c04Entry, i int) []string {
	out := []string{}
	for j := i + 1; j < len(log); j++ {
		if log[j].Kind != c04Annot {
			continue
		}
		for _, n := range log[j].Names {
			if n == i {
				out = append(out, log[j].id.String())
				break
			}
		}
	}
	sort.Strings(out)
	return out
}

func c04Skipped(log []c04Entry, i int) bool {
	for j := i + 1; j < len(log); j++ {
		if log[j].Kind == c04Annot && log[j].Skip {
			for _, n := range log[j].Names {
				if n == i {
					return true
				}
			}
		}
	}
	return false
}

type c04Opts struct {
	Ref       string `json:"ref,omitempty"`
	BeforeIdx int    `json:"before_idx"` // -1 none
	BeforeNum uint64 `json:"before_num,omitempty"`
	UntilIdx  int    `json:"until_idx"` // -1 none
	UntilNum  uint64 `json:"until_num,omitempty"`
	Unskipped bool   `json:"unskipped,omitempty"`
	NonGittuf bool   `json:"non_gittuf,omitempty"`
	IsRef     bool   `json:"is_ref,omitempty"`
	PropRepo  string `json:"prop_repo,omitempty"`
}

func (o c04Opts) real(log []c04Entry) []rsl.GetLatestReferenceUpdaterEntryOption {
	opts := []rsl.GetLatestReferenceUpdaterEntryOption{}
	if o.Ref != "" {
		opts = append(opts, rsl.ForReference(o.Ref))
	}
	if o.BeforeIdx >= 0 {
		opts = append(opts, rsl.BeforeEntryID(log[o.BeforeIdx].id))
	}
	if o.BeforeNum != 0 {
		opts = append(opts, rsl.BeforeEntryNumber(o.BeforeNum))
	}
	if o.UntilIdx >= 0 {
		opts = append(opts, rsl.UntilEntryID(log[o.UntilIdx].id))
	}
	if o.UntilNum != 0 {
		opts = append(opts, rsl.UntilEntryNumber(o.UntilNum))
	}
	if o.Unskipped {
		opts = append(opts, rsl.IsUnskipped())
	}
	if o.NonGittuf {
		opts = append(opts, rsl.ForNonGittufReference())
	}
	if o.IsRef {
		opts = append(opts, rsl.IsReferenceEntry())
	}
	if o.PropRepo != "" {
		opts = append(opts, rsl.IsPropagationEntryForRepository(o.PropRepo))
	}
	return opts
}

const (
	c04Found      = "found"
	c04NotFound   = "not-found"
	c04MustReject = "must-reject" // invalid option combination: any error
	c04AnyError   = "any-error"   // e.g. anchor not in the numbering: some error, never a result
	c04NFOrReject = "not-found-or-reject"
)

// c04RefLatest is the plain scan. It returns the expectation class, the index
// of the answer and the oldest index the scan visits.
func c04RefLatest(log []c04Entry, o c04Opts) (string, int, int) {
	if (o.BeforeIdx >= 0 && o.BeforeNum != 0) || (o.UntilIdx >= 0 && o.UntilNum != 0) {
		return c04MustReject, -1, 0
	}
	if o.BeforeNum != 0 && o.UntilNum != 0 && o.BeforeNum < o.UntilNum {
		return c04MustReject, -1, 0
	}
	if o.IsRef && o.PropRepo != "" {
		return c04MustReject, -1, 0
	}
	tip := len(log) - 1
	if log[tip].number == 0 && (o.BeforeNum != 0 || o.UntilNum != 0) {
		return c04MustReject, -1, 0
	}
	if o.UntilNum != 0 && log[tip].number < o.UntilNum {
		return c04AnyError, -1, 0
	}
	start := tip
	if o.BeforeIdx >= 0 {
		start = o.BeforeIdx - 1
	}
	if o.BeforeNum != 0 {
		anchor := -1
		for i := tip; i >= 0; i-- {
			if log[i].number == o.BeforeNum {
				anchor = i
				break
			}
		}
		if anchor < 0 {
			return c04AnyError, -1, 0
		}
		start = anchor - 1
	}
	// the anchor itself lies below the until bound: inconsistent request
	if start+1 <= tip && (o.BeforeIdx >= 0 || o.BeforeNum != 0) {
		anchor := start + 1
		if o.UntilNum != 0 && log[anchor].number < o.UntilNum {
			return c04NFOrReject, -1, 0
		}
		if o.UntilNum != 0 && log[anchor].number == o.UntilNum {
			// [until, before) is empty
			return c04NotFound, -1, anchor
		}
		if o.UntilIdx >= 0 && o.UntilIdx >= anchor {
			// the until entry is met at or before the anchor: empty range
			return c04NFOrReject, -1, anchor
		}
	}
	for i := start; i >= 0; i-- {
		if o.UntilNum != 0 && log[i].number < o.UntilNum {
			return c04NotFound, -1, i
		}
		e := log[i]
		if e.Kind != c04Annot {
			ok := true
			if o.Ref != "" && e.Ref != o.Ref {
				ok = false
			}
			if o.IsRef && e.Kind != c04Ref {
				ok = false
			}
			if o.Unskipped && e.Kind == c04Ref && c04Skipped(log, i) {
				ok = false
			}
			if o.PropRepo != "" && (e.Kind != c04Prop || e.Upstream != o.PropRepo) {
				ok = false
			}
			if o.NonGittuf && strings.HasPrefix(e.Ref, "refs/gittuf/") {
				ok = false
			}
			if ok {
				return c04Found, i, i
			}
		}
		if o.UntilIdx >= 0 && i == o.UntilIdx {
			// documented: UntilEntryID is inclusive
			return c04NotFound, -1, i
		}
	}
	return c04NotFound, -1, 0
}

func c04AnnIDs(as []*rsl.AnnotationEntry) []string {
	out := []string{}
	for _, a := range as {
		out = append(out, a.ID.String())
	}
	sort.Strings(out)
	return out
}

func c04Eq(a, b []string) bool {
	if len(a) != len(b) {
		return false
	}
	for i := range a {
		if a[i] != b[i] {
			return false
		}
	}
	return true
}

func c04ErrClass(err error) string {
	switch {
	case err == nil:
		return "ok"
	case errors.Is(err, rsl.ErrRSLEntryNotFound):
		return "not-found"
	case errors.Is(err, rsl.ErrInvalidGetLatestReferenceUpdaterEntryOptions):
		return "invalid-options"
	case errors.Is(err, rsl.ErrCannotUseEntryNumberFilter):
		return "cannot-use-numbers"
	case errors.Is(err, rsl.ErrInvalidUntilEntryNumberCondition):
		return "invalid-until"
	case errors.Is(err, rsl.ErrRSLBranchDetected):
		return "branch-detected"
	case errors.Is(err, rsl.ErrInvalidRSLEntry):
		return "invalid-entry"
	case errors.Is(err, rsl.ErrNoRecordOfCommit):
		return "no-record-of-commit"
	default:
		return "other-error"
	}
}

func c04Positional(o c04Opts) string {
	parts := []string{}
	if o.BeforeIdx >= 0 {
		parts = append(parts, "beforeID")
	}
	if o.BeforeNum != 0 {
		parts = append(parts, "beforeNum")
	}
	if o.UntilIdx >= 0 {
		parts = append(parts, "untilID")
	}
	if o.UntilNum != 0 {
		parts = append(parts, "untilNum")
	}
	return strings.Join(parts, "+")
}

func c04OptShape(o c04Opts) string {
	parts := []string{}
	if o.Ref != "" {
		parts = append(parts, "ref")
	}
	if o.BeforeIdx >= 0 {
		parts = append(parts, "beforeID")
	}
	if o.BeforeNum != 0 {
		parts = append(parts, "beforeNum")
	}
	if o.UntilIdx >= 0 {
		parts = append(parts, "untilID")
	}
	if o.UntilNum != 0 {
		parts = append(parts, "untilNum")
	}
	if o.Unskipped {
		parts = append(parts, "unskipped")
	}
	if o.NonGittuf {
		parts = append(parts, "nongittuf")
	}
	if o.IsRef {
		parts = append(parts, "isref")
	}
	if o.PropRepo != "" {
		parts = append(parts, "prop")
	}
	return strings.Join(parts, "+")
}

type c04Replay struct {
	Log     []c04Entry `json:"log"`
	Query   string     `json:"query"`
	Opts    *c04Opts   `json:"opts,omitempty"`
	A       int        `json:"a,omitempty"`
	B       int        `json:"b,omitempty"`
	Ref     string     `json:"ref,omitempty"`
	Corrupt *c04Corr   `json:"corrupt,omitempty"`
}

type c04Corr struct {
	Kind string `json:"kind"` // extra-parent | number-gap | number-dup | garbage
	At   int    `json:"at"`
}

func c04LogString(log []c04Entry) string {
	parts := []string{}
	for _, e := range log {
		parts = append(parts, e.String())
	}
	return strings.Join(parts, " ")
}

// c04CheckLatest compares one GetLatestReferenceUpdaterEntry call.
func c04CheckLatest(ms *memstore.Store, log []c04Entry, o c04Opts, col *evid.Collector) (string, string) {
	class, want, _ := c04RefLatest(log, o)
	got, anns, err := rsl.GetLatestReferenceUpdaterEntry(ms, o.real(log)...)
	ec := c04ErrClass(err)
	col.Inc("evaluations")
	col.Inc("q_latest")
	col.Class("latest/%s/%s", class, ec)
	shape := c04OptShape(o)
	switch class {
	case c04MustReject, c04AnyError:
		if err == nil {
			return "C04:latest:result-for-invalid-request:" + shape, fmt.Sprintf("log [%s] opts %+v: expected an error, got entry %s", c04LogString(log), o, got.GetID())
		}
	case c04NFOrReject:
		if err == nil {
			return "C04:latest:until-bound-not-enforced-at-before-anchor:" + c04Positional(o), fmt.Sprintf("log [%s] opts %+v: the until bound lies at or above the before anchor, so no entry qualifies, but %s was returned", c04LogString(log), o, got.GetID())
		}
		if ec != "not-found" && ec != "invalid-options" {
			return "C04:latest:wrong-outcome-anchor-below-until:" + shape, fmt.Sprintf("log [%s] opts %+v: expected not-found/invalid-options, got %s", c04LogString(log), o, ec)
		}
	case c04NotFound:
		if err == nil && (o.BeforeIdx >= 0 || o.BeforeNum != 0) && o.UntilNum != 0 && got.GetNumber() < o.UntilNum {
			return "C04:latest:until-bound-not-enforced-at-before-anchor:" + c04Positional(o), fmt.Sprintf("log [%s] opts %+v: entry numbered %d returned although the until bound is %d", c04LogString(log), o, got.GetNumber(), o.UntilNum)
		}
		if err == nil && o.UntilIdx >= 0 && o.BeforeIdx < 0 && o.BeforeNum == 0 {
			return "C04:latest:until-id-not-honoured-at-scan-start", fmt.Sprintf("log [%s] opts %+v: the scan starts at the UntilEntryID entry, which does not qualify, yet the older entry %s was returned", c04LogString(log), o, got.GetID())
		}
		if err == nil {
			return "C04:latest:entry-returned-where-none-qualifies:" + shape, fmt.Sprintf("log [%s] opts %+v: no entry qualifies but %s was returned", c04LogString(log), o, got.GetID())
		}
		if ec != "not-found" {
			return "C04:latest:wrong-error-where-none-qualifies:" + ec + ":" + shape, fmt.Sprintf("log [%s] opts %+v: expected a not-found error, got %v", c04LogString(log), o, err)
		}
	case c04Found:
		if err != nil && ec == "not-found" && o.UntilIdx >= 0 && want == o.UntilIdx {
			return "C04:latest:until-id-entry-excluded", fmt.Sprintf("log [%s] opts %+v: entry #%d is the UntilEntryID entry itself (documented inclusive) and qualifies, but not-found was returned", c04LogString(log), o, want)
		}
		if err != nil {
			return "C04:latest:qualifying-entry-missed:" + ec + ":" + shape, fmt.Sprintf("log [%s] opts %+v: entry #%d qualifies but got %v", c04LogString(log), o, want, err)
		}
		if !got.GetID().Equal(log[want].id) {
			return "C04:latest:wrong-entry:" + shape, fmt.Sprintf("log [%s] opts %+v: expected entry #%d, got %s", c04LogString(log), o, want, got.GetID())
		}
		if !c04Eq(c04AnnIDs(anns), c04AnnotationsOf(log, want)) {
			return "C04:latest:wrong-annotations:" + shape, fmt.Sprintf("log [%s] opts %+v: annotations of entry #%d: got %v want %v", c04LogString(log), o, want, c04AnnIDs(anns), c04AnnotationsOf(log, want))
		}
		col.Inc("q_found")
		if len(anns) > 0 {
			col.Inc("q_with_annotations")
		}
	}
	return "", ""
}

func c04AllOpts(log []c04Entry, full bool) []c04Opts {
	n := len(log)
	refs := []string{"", c04Main, c04Feat, c04Policy}
	if !full {
		refs = []string{"", c04Main}
	}
	type pos struct {
		idx int
		num uint64
	}
	before := []pos{{-1, 0}}
	until := []pos{{-1, 0}}
	for i := 0; i < n; i++ {
		before = append(before, pos{i, 0})
		until = append(until, pos{i, 0})
	}
	for k := uint64(1); k <= uint64(n)+1; k++ {
		before = append(before, pos{-1, k})
		until = append(until, pos{-1, k})
	}
	before = append(before, pos{0, 1})
	until = append(until, pos{0, 1})
	out := []c04Opts{}
	for _, r := range refs {
		for _, b := range before {
			for _, u := range until {
				for f := 0; f < 16; f++ {
					o := c04Opts{Ref: r, BeforeIdx: b.idx, BeforeNum: b.num, UntilIdx: u.idx, UntilNum: u.num,
						Unskipped: f&1 != 0, NonGittuf: f&2 != 0, IsRef: f&4 != 0}
					if f&8 != 0 {
						o.PropRepo = c04U1
					}
					if !full {
						// reduced filter product: each filter alone, all off, and
						// two mixed combinations
						switch f {
						case 0, 1, 8:
						default:
							continue
						}
					}
					out = append(out, o)
				}
			}
		}
	}
	return out
}

// c04CheckOthers compares the remaining readers on a well-formed log.
func c04CheckOthers(ms *memstore.Store, w *c04World, log []c04Entry, col *evid.Collector) (string, string, *c04Replay) {
	ls := c04LogString(log)
	n := len(log)
	// GetFirstEntry / GetFirstReferenceUpdaterEntryForRef
	for _, ref := range []string{"", c04Main, c04Feat, c04Policy, c04Stage} {
		want := -1
		for i := 0; i < n; i++ {
			if log[i].Kind != c04Annot && (ref == "" || log[i].Ref == ref) {
				want = i
				break
			}
		}
		var got rsl.ReferenceUpdaterEntry
		var anns []*rsl.AnnotationEntry
		var err error
		if ref == "" {
			got, anns, err = rsl.GetFirstEntry(ms)
		} else {
			got, anns, err = rsl.GetFirstReferenceUpdaterEntryForRef(ms, ref)
		}
		col.Inc("evaluations")
		col.Inc("q_first")
		col.Class("first/%v/%s", want >= 0, c04ErrClass(err))
		rp := &c04Replay{Query: "first", Ref: ref}
		if want < 0 {
			if err == nil || !errors.Is(err, rsl.ErrRSLEntryNotFound) {
				return "C04:first:wrong-outcome-where-none", fmt.Sprintf("log [%s] first(%q): expected not-found, got %v", ls, ref, err), rp
			}
			continue
		}
		if err != nil {
			return "C04:first:qualifying-entry-missed", fmt.Sprintf("log [%s] first(%q): expected #%d, got %v", ls, ref, want, err), rp
		}
		if !got.GetID().Equal(log[want].id) || !c04Eq(c04AnnIDs(anns), c04AnnotationsOf(log, want)) {
			return "C04:first:wrong-answer", fmt.Sprintf("log [%s] first(%q): expected #%d with %v, got %s with %v", ls, ref, want, c04AnnotationsOf(log, want), got.GetID(), c04AnnIDs(anns)), rp
		}
	}
	// GetParentForEntry / GetNonGittufParent...
	for i := 0; i < n; i++ {
		e, err := rsl.GetEntry(ms, log[i].id)
		if err != nil {
			return "C04:getentry-failed", fmt.Sprintf("log [%s]: GetEntry(#%d): %v", ls, i, err), &c04Replay{Query: "parent", A: i}
		}
		p, err := rsl.GetParentForEntry(ms, e)
		col.Inc("evaluations")
		col.Inc("q_parent")
		rp := &c04Replay{Query: "parent", A: i}
		if i == 0 {
			if !errors.Is(err, rsl.ErrRSLEntryNotFound) {
				return "C04:parent:wrong-outcome-at-root", fmt.Sprintf("log [%s]: parent(#0) = %v", ls, err), rp
			}
		} else if err != nil || !p.GetID().Equal(log[i-1].id) {
			return "C04:parent:wrong-answer", fmt.Sprintf("log [%s]: parent(#%d): err=%v", ls, i, err), rp
		}
		// non-gittuf parent
		want := -1
		for j := i - 1; j >= 0; j-- {
			if log[j].Kind != c04Annot && !strings.HasPrefix(log[j].Ref, "refs/gittuf/") {
				want = j
				break
			}
		}
		g, anns, err := rsl.GetNonGittufParentReferenceUpdaterEntryForEntry(ms, e)
		col.Inc("evaluations")
		col.Inc("q_nongittuf_parent")
		col.Class("nongittufparent/%v/%s", want >= 0, c04ErrClass(err))
		rp = &c04Replay{Query: "nongittuf-parent", A: i}
		if want < 0 {
			if err == nil || !errors.Is(err, rsl.ErrRSLEntryNotFound) {
				return "C04:nongittuf-parent:wrong-outcome-where-none", fmt.Sprintf("log [%s]: nongittuf-parent(#%d): expected not-found, got %v", ls, i, err), rp
			}
		} else {
			if err != nil {
				return "C04:nongittuf-parent:qualifying-entry-missed", fmt.Sprintf("log [%s]: nongittuf-parent(#%d): expected #%d, got %v", ls, i, want, err), rp
			}
			if !g.GetID().Equal(log[want].id) || !c04Eq(c04AnnIDs(anns), c04AnnotationsOf(log, want)) {
				return "C04:nongittuf-parent:wrong-answer", fmt.Sprintf("log [%s]: nongittuf-parent(#%d): expected #%d with %v, got %s with %v", ls, i, want, c04AnnotationsOf(log, want), g.GetID(), c04AnnIDs(anns)), rp
			}
		}
	}
	// GetFirstReferenceUpdaterEntryForCommit
	for c := range w.commits {
		// documented algorithm: newest non-gittuf entry must know the commit;
		// the answer is the oldest entry of the newest-first run of non-gittuf
		// entries that all know it.
		want := -1
		first := true
		class := "found"
		for j := n - 1; j >= 0; j-- {
			if log[j].Kind == c04Annot || strings.HasPrefix(log[j].Ref, "refs/gittuf/") {
				continue
			}
			if !w.knows[log[j].Target][c] {
				break
			}
			first = false
			want = j
		}
		_ = first
		if want < 0 {
			class = "no-record"
		}
		g, anns, err := rsl.GetFirstReferenceUpdaterEntryForCommit(ms, w.commits[c])
		col.Inc("evaluations")
		col.Inc("q_for_commit")
		col.Class("forcommit/%s/%s", class, c04ErrClass(err))
		rp := &c04Replay{Query: "for-commit", A: c}
		if want < 0 {
			if !errors.Is(err, rsl.ErrNoRecordOfCommit) {
				return "C04:for-commit:wrong-outcome-where-none", fmt.Sprintf("log [%s]: for-commit(c%d): expected no-record, got %v", ls, c, err), rp
			}
			continue
		}
		if err != nil {
			return "C04:for-commit:qualifying-entry-missed", fmt.Sprintf("log [%s]: for-commit(c%d): expected #%d, got %v", ls, c, want, err), rp
		}
		if !g.GetID().Equal(log[want].id) || !c04Eq(c04AnnIDs(anns), c04AnnotationsOf(log, want)) {
			return "C04:for-commit:wrong-answer", fmt.Sprintf("log [%s]: for-commit(c%d): expected #%d with %v, got %s with %v", ls, c, want, c04AnnotationsOf(log, want), g.GetID(), c04AnnIDs(anns)), rp
		}
	}
	// ranges
	for a := 0; a < n; a++ {
		for b := a; b < n; b++ {
			for _, ref := range []string{"", c04Main, c04Feat} {
				if sig, what := c04CheckRange(ms, log, a, b, ref, col); sig != "" {
					return sig, what, &c04Replay{Query: "range", A: a, B: b, Ref: ref}
				}
			}
		}
	}
	return "", "", nil
}

func c04Relevant(ref, want string) bool {
	if want == "" || ref == want {
		return true
	}
	return strings.HasPrefix(ref, "refs/gittuf/") && ref != c04Stage
}

func c04CheckRange(ms *memstore.Store, log []c04Entry, a, b int, ref string, col *evid.Collector) (string, string) {
	ls := c04LogString(log)
	wantIDs := []string{}
	wantAnn := map[string][]string{}
	for i := a; i <= b; i++ {
		if log[i].Kind == c04Annot || !c04Relevant(log[i].Ref, ref) {
			continue
		}
		wantIDs = append(wantIDs, log[i].id.String())
		if as := c04AnnotationsOf(log, i); len(as) > 0 {
			wantAnn[log[i].id.String()] = as
		}
	}
	var entries []rsl.ReferenceUpdaterEntry
	var amap map[string][]*rsl.AnnotationEntry
	var err error
	if ref == "" {
		entries, amap, err = rsl.GetReferenceUpdaterEntriesInRange(ms, log[a].id, log[b].id)
	} else {
		entries, amap, err = rsl.GetReferenceUpdaterEntriesInRangeForRef(ms, log[a].id, log[b].id, ref)
	}
	col.Inc("evaluations")
	col.Inc("q_range")
	col.Class("range/%d-entries/%v-annotated/%s", len(wantIDs), len(wantAnn) > 0, c04ErrClass(err))
	if err != nil {
		return "C04:range:error-on-wellformed-log", fmt.Sprintf("log [%s] range(#%d,#%d,%q): %v", ls, a, b, ref, err)
	}
	gotIDs := []string{}
	for _, e := range entries {
		gotIDs = append(gotIDs, e.GetID().String())
	}
	if !c04Eq(gotIDs, wantIDs) {
		return "C04:range:wrong-entries", fmt.Sprintf("log [%s] range(#%d,#%d,%q): entries got %v want %v", ls, a, b, ref, gotIDs, wantIDs)
	}
	if len(amap) != len(wantAnn) {
		return "C04:range:wrong-annotation-map", fmt.Sprintf("log [%s] range(#%d,#%d,%q): annotation map has %d keys, want %d", ls, a, b, ref, len(amap), len(wantAnn))
	}
	for id, as := range amap {
		if !c04Eq(c04AnnIDs(as), wantAnn[id]) {
			return "C04:range:wrong-annotation-map", fmt.Sprintf("log [%s] range(#%d,#%d,%q): annotations of %s got %v want %v", ls, a, b, ref, id, c04AnnIDs(as), wantAnn[id])
		}
		// property: in order of occurrence
		for k := 1; k < len(as); k++ {
			if as[k-1].Number != 0 && as[k].Number != 0 && as[k-1].Number > as[k].Number {
				return "C04:range:annotations-out-of-order", fmt.Sprintf("log [%s] range(#%d,#%d,%q): annotations of %s not in log order", ls, a, b, ref, id)
			}
		}
	}
	return "", ""
}

// ---- corruption ----

// c04Corrupt rebuilds the chain of log inside a snapshot with one corruption
// and returns the store plus the (remapped) log.
func c04Corrupt(ms0 *memstore.Store, w *c04World, log []c04Entry, c c04Corr) (*memstore.Store, []c04Entry) {
	ms := ms0.Snapshot()
	empty, _ := ms.EmptyTree()
	out := make([]c04Entry, len(log))
	copy(out, log)
	var parent githash.Hash
	for i := range log {
		raw, _ := ms0.RawCommit(log[i].id.String())
		text := raw.Message
		// remap referenced ids
		if log[i].Kind == c04Annot {
			for _, nidx := range log[i].Names {
				text = strings.ReplaceAll(text, log[nidx].id.String(), out[nidx].id.String())
			}
		}
		parents := []githash.Hash{}
		if parent != nil {
			parents = append(parents, parent)
		}
		if c.At == i {
			switch c.Kind {
			case "extra-parent":
				parents = append(parents, w.commits[3])
			case "number-gap":
				text = strings.Replace(text, fmt.Sprintf("number: %d", log[i].number), fmt.Sprintf("number: %d", log[i].number+1), 1)
			case "number-dup":
				text = strings.Replace(text, fmt.Sprintf("number: %d", log[i].number), fmt.Sprintf("number: %d", log[i].number-1), 1)
			case "garbage":
				text = "this is not an RSL entry"
			case "wrong-kind":
				text = "RSL Reference Entry\n\nref: refs/heads/main"
			}
		}
		id, err := ms.PutCommit(empty, parents, text+"\n", nil)
		if err != nil {
			panic(err)
		}
		out[i].id = id
		parent = id
	}
	ms.Refs[rsl.Ref] = parent.String()
	return ms, out
}

// c04BadStep reports whether the step from index j to j-1 is corrupted.
func c04BadStep(c c04Corr, j int) bool {
	switch c.Kind {
	case "extra-parent":
		return c.At == j
	case "number-gap", "number-dup":
		return c.At == j || c.At == j-1
	case "garbage", "wrong-kind":
		return c.At == j-1
	}
	return false
}

func c04CheckCorrupted(ms0 *memstore.Store, w *c04World, log []c04Entry, col *evid.Collector) (string, string, *c04Replay) {
	n := len(log)
	kinds := []string{"extra-parent", "number-gap", "number-dup", "garbage", "wrong-kind"}
	for _, kind := range kinds {
		for at := 0; at < n; at++ {
			if kind == "extra-parent" && at == 0 {
				continue
			}
			if (kind == "number-gap" || kind == "number-dup") && log[at].number == 0 {
				continue
			}
			if kind == "number-dup" && log[at].number <= 1 {
				continue
			}
			c := c04Corr{Kind: kind, At: at}
			rsl.ResetCacheForVerif()
			ms, clog := c04Corrupt(ms0, w, log, c)
			col.Inc("corrupted_logs")
			tipBad := (kind == "garbage" || kind == "wrong-kind") && at == n-1
			// id-based and plain queries only (numbers are ambiguous here)
			for _, ref := range []string{"", c04Main, c04Feat, c04Policy} {
				for b := -1; b < n; b++ {
					for u := -1; u < n; u++ {
						for _, unsk := range []bool{false, true} {
							o := c04Opts{Ref: ref, BeforeIdx: b, UntilIdx: u, Unskipped: unsk}
							if (kind == "garbage" || kind == "wrong-kind") && (b == at || u == at) {
								continue
							}
							class, want, low := c04RefLatest(log, o)
							if class == c04NFOrReject || (u >= 0 && b >= 0 && u >= b) {
								continue // judged on the well-formed log
							}
							got, anns, err := rsl.GetLatestReferenceUpdaterEntry(ms, o.real(clog)...)
							col.Inc("evaluations")
							col.Inc("q_corrupted")
							// does a corrupted step lie in the segment tip..low?
							inside := tipBad
							for j := n - 1; j > low; j-- {
								if c04BadStep(c, j) {
									inside = true
								}
							}
							rp := &c04Replay{Query: "latest", Opts: &o, Corrupt: &c}
							ls := c04LogString(log)
							if inside {
								col.Inc("q_corrupted_must_fail")
								col.Class("corrupt/%s/inside/%s", kind, c04ErrClass(err))
								if err == nil {
									return "C04:corrupt:" + kind + ":answer-produced-across-corruption", fmt.Sprintf("log [%s] corrupted %s@#%d, opts %+v: scan must cross the corruption but returned %s", ls, kind, at, o, got.GetID()), rp
								}
								if class == c04Found && errors.Is(err, rsl.ErrRSLEntryNotFound) && !errors.Is(err, rsl.ErrInvalidRSLEntry) {
									// not-found is indistinguishable from "no such entry":
									// the reader must not turn tampering into a clean miss
									// when an entry does qualify beyond... it is still an
									// error, which the statement accepts.
									col.Inc("q_corrupted_notfound_instead")
								}
								continue
							}
							col.Class("corrupt/%s/below/%s", kind, c04ErrClass(err))
							if err != nil {
								continue // corruption strictly below the segment: error accepted
							}
							if class == c04Found && u >= 0 && want == u {
								continue // until-id entry excluded: judged on the well-formed log
							}
							if class != c04Found || !got.GetID().Equal(clog[want].id) || !c04Eq(c04AnnIDs(anns), c04AnnotationsOf(clog, want)) {
								return "C04:corrupt:" + kind + ":wrong-answer", fmt.Sprintf("log [%s] corrupted %s@#%d, opts %+v: wrong answer %s (expected class %s #%d)", ls, kind, at, o, got.GetID(), class, want), rp
							}
						}
					}
				}
			}
			// range reader: needs the walk tip..a
			for a := 0; a < n; a++ {
				for b := a; b < n; b++ {
					if (kind == "garbage" || kind == "wrong-kind") && (a == at || b == at) {
						continue
					}
					_, _, err := rsl.GetReferenceUpdaterEntriesInRange(ms, clog[a].id, clog[b].id)
					col.Inc("evaluations")
					col.Inc("q_corrupted")
					inside := tipBad
					for j := n - 1; j > a; j-- {
						if c04BadStep(c, j) {
							inside = true
						}
					}
					if inside && err == nil {
						return "C04:corrupt:" + kind + ":range-produced-across-corruption", fmt.Sprintf("log [%s] corrupted %s@#%d: range(#%d,#%d) succeeded", c04LogString(log), kind, at, a, b), &c04Replay{Query: "range", A: a, B: b, Corrupt: &c}
					}
				}
			}
			// first entry needs the whole chain
			if n > 1 || tipBad {
				_, _, err := rsl.GetFirstEntry(ms)
				col.Inc("evaluations")
				anyBad := tipBad
				for j := n - 1; j > 0; j-- {
					if c04BadStep(c, j) {
						anyBad = true
					}
				}
				if anyBad && err == nil {
					return "C04:corrupt:" + kind + ":first-entry-produced-across-corruption", fmt.Sprintf("log [%s] corrupted %s@#%d: GetFirstEntry succeeded", c04LogString(log), kind, at), &c04Replay{Query: "first", Corrupt: &c}
				}
			}
		}
	}
	rsl.ResetCacheForVerif()
	return "", "", nil
}

func TestC04(t *testing.T) {
	col := evid.New("C04")
	defer func() {
		if err := col.Write(); err != nil {
			t.Fatal(err)
		}
	}()
	thorough := evid.Thorough()
	maxLen, fullLen := 4, 3
	if thorough {
		maxLen, fullLen = 5, 4
	}
	col.Bound("max_log_length", maxLen)
	col.Bound("full_option_product_up_to_length", fullLen)
	col.Rule("depth-first enumeration of every log of length <= %d (every prefix is itself queried) over the entry alphabet {reference entry for main@c0/main@c2/feat@c1/feat@unrelated/policy/policy-staging/attestations, propagation entry for main from two upstreams, annotation skip t/f over any 1-2 earlier entries}, numbered or with a legacy unnumbered prefix of length 0/1/2/all; on every log: GetLatestReferenceUpdaterEntry with the full product of options (reference x before id/number x until id/number x unskipped x non-gittuf x is-reference x propagation-repository; reduced reference/filter product above length %d), GetFirstEntry, GetFirstReferenceUpdaterEntryForRef, GetParentForEntry, GetNonGittufParentReferenceUpdaterEntryForEntry, GetFirstReferenceUpdaterEntryForCommit, the range readers for every first<=last pair; plus every single-point corruption (extra parent, number gap, number duplicate, garbage message, truncated entry) of every log with the id-based queries. Reference = list comprehension over the abstract log. A class is (query, expectation class, outcome)", maxLen, fullLen)
	col.Assume("UntilEntryID is inclusive as documented in pkg/rsl/options.go; only reference entries can be skipped (pkg/rsl comment); number-based options are not issued against number-corrupted logs")

	if rf := evid.ReplayFile(); rf != "" {
		var r c04Replay
		if err := evid.LoadReplay(rf, &r); err != nil {
			col.Fail(err.Error())
			return
		}
		ms := memstore.New()
		w := c04BuildWorld(ms)
		log := []c04Entry{}
		for _, e := range r.Log {
			ne, err := c04Append(ms, w, log, e)
			if err != nil {
				col.Fail(err.Error())
				return
			}
			log = append(log, ne)
		}
		if r.Corrupt != nil {
			if sig, what, rp := c04CheckCorrupted(ms, w, log, col); sig != "" {
				rp.Log = log
				col.Violation(sig, what, rp)
			}
			return
		}
		if r.Opts != nil {
			if sig, what := c04CheckLatest(ms, log, *r.Opts, col); sig != "" {
				col.Violation(sig, what, r)
			}
			return
		}
		if sig, what, rp := c04CheckOthers(ms, w, log, col); sig != "" {
			rp.Log = log
			col.Violation(sig, what, rp)
		}
		return
	}

	legacyPrefixes := []int{0, 2}
	if thorough {
		legacyPrefixes = []int{0, 1, 2, 99}
	}
	item := 0
	for _, lp := range legacyPrefixes {
		ms0 := memstore.New()
		w := c04BuildWorld(ms0)
		var dfs func(ms *memstore.Store, log []c04Entry)
		dfs = func(ms *memstore.Store, log []c04Entry) {
			if col.Expired() {
				return
			}
			if len(log) > 0 {
				col.Inc("logs")
				if len(log) == maxLen {
					col.Sample(map[string]any{"log": c04LogString(log), "legacy_prefix": lp})
				}
				for _, o := range c04AllOpts(log, len(log) <= fullLen) {
					if sig, what := c04CheckLatest(ms, log, o, col); sig != "" {
						o := o
						col.Violation(sig, what, c04Replay{Log: log, Query: "latest", Opts: &o})
					}
				}
				if sig, what, rp := c04CheckOthers(ms, w, log, col); sig != "" {
					rp.Log = log
					col.Violation(sig, what, rp)
				}
				if len(log) <= fullLen {
					if sig, what, rp := c04CheckCorrupted(ms, w, log, col); sig != "" {
						rp.Log = log
						col.Violation(sig, what, rp)
					}
				}
			}
			if len(log) == maxLen {
				return
			}
			for _, e := range c04Menu(len(log), len(log) >= fullLen) {
				if len(log) == 0 && e.Kind == c04Annot {
					continue
				}
				if len(log) == 1 {
					item++
					if !evid.Mine(item) {
						continue
					}
				}
				e.Legacy = len(log) < lp
				if e.Legacy && e.Kind == c04Prop {
					continue // no legacy recording path for propagation entries
				}
				snap := ms.Snapshot()
				ne, err := c04Append(snap, w, log, e)
				if err != nil {
					col.Fail(fmt.Sprintf("recording %s failed: %v", e, err))
					return
				}
				dfs(snap, append(append([]c04Entry(nil), log...), ne))
			}
		}
		dfs(ms0, nil)
	}
}
