package checks

import (
	"errors"
	"fmt"
	"strings"

	"github.com/gittuf/gittuf/internal/policy"
	"github.com/gittuf/gittuf/pkg/githash"
	"github.com/gittuf/gittuf/pkg/rsl"
	"github.com/gittuf/gittuf/verif/evid"
	"github.com/gittuf/gittuf/verif/hist"
	"github.com/gittuf/gittuf/verif/memstore"
	"github.com/gittuf/gittuf/verif/refver"
)

// E1 — bounded-exhaustive exploration of histories: depth-first over the
// prefix tree of event sequences; at EVERY node the real verifier is run in
// every applicable mode for every reference of the scenario and compared with
// the reference verifier evaluated on the abstract record.

type e1Scenario struct {
	Name     string
	World    func(ms *memstore.Store) *hist.World
	Policies []*hist.PolicySpec
	Prefix   []hist.Event
	Menu     func(h *hist.Hist, depth int) []hist.Event
	Depth    int
	Refs     []string
	// Judge compares implementation and oracle at one node; nil = e1Judge.
	Judge func(sc *e1Scenario, h *hist.Hist, cps map[string][]int, col *evid.Collector) map[string][]int
	// keepSnaps: keep a store snapshot after every entry (C08 needs prefixes)
	keepSnaps bool
}

type e1Replay struct {
	Scenario string       `json:"scenario"`
	Events   []hist.Event `json:"events"`
	Mode     string       `json:"mode,omitempty"`
	Ref      string       `json:"ref,omitempty"`
}

func e1ErrClass(err error) string {
	switch {
	case err == nil:
		return "ok"
	case errors.Is(err, policy.ErrInvalidEntryNotSkipped):
		return "invalid-entry-not-skipped"
	case errors.Is(err, policy.ErrLastGoodEntryIsSkipped):
		return "last-good-entry-skipped"
	case errors.Is(err, policy.ErrVerificationFailed):
		return "verification-failed"
	case errors.Is(err, policy.ErrPolicyNotFound):
		return "policy-not-found"
	case errors.Is(err, policy.ErrMetadataRollbackDetected):
		return "rollback-detected"
	case errors.Is(err, policy.ErrVerifierConditionsUnmet):
		return "verifier-conditions-unmet"
	case errors.Is(err, policy.ErrDanglingDelegationMetadata):
		return "dangling-delegation"
	case errors.Is(err, rsl.ErrRSLEntryNotFound):
		return "entry-not-found"
	default:
		return "other-error"
	}
}

func e1Start(sc *e1Scenario) (*hist.Hist, error) {
	ms := memstore.New()
	w := sc.World(ms)
	h := hist.New(ms, w, sc.Policies)
	h.KeepSnaps = sc.keepSnaps
	for _, ev := range sc.Prefix {
		if err := h.Apply(ev); err != nil {
			return nil, fmt.Errorf("prefix event %s: %w", ev, err)
		}
	}
	return h, nil
}

// e1Judge runs full / latest-only / from-entry verification for every ref and
// compares verdict and tip with the oracle. It returns the updated checkpoint
// map (per ref: indices of push entries reached by a successful full
// verification).
func e1Judge(sc *e1Scenario, h *hist.Hist, cps map[string][]int, col *evid.Collector) map[string][]int {
	out := map[string][]int{}
	for k, v := range cps {
		out[k] = v
	}
	for _, ref := range sc.Refs {
		last := h.A.LastIndex(ref)
		if last < 0 {
			continue
		}
		wantTip := h.W.Hash(h.A.Entries[last].Commit)
		v := policy.NewPolicyVerifier(h.MS)

		// full
		tip, err := v.VerifyRefFull(world_ctx, ref)
		h.A.PropagationStrict = true
		strict, _ := h.A.Full(ref)
		h.A.PropagationStrict = false
		lenient, _ := h.A.Full(ref)
		e1Compare(sc, h, col, "full", ref, tip, err, wantTip, strict, lenient)
		if err == nil && lenient.OK && h.A.Entries[last].Kind == refver.Push {
			// checkpoint for descendants
			found := false
			for _, k := range out[ref] {
				if k == last {
					found = true
				}
			}
			if !found {
				out[ref] = append(append([]int(nil), out[ref]...), last)
			}
		}

		// latest only
		tip, err = policy.NewPolicyVerifier(h.MS).VerifyRef(world_ctx, ref)
		h.A.PropagationStrict = true
		strict, _ = h.A.Latest(ref)
		h.A.PropagationStrict = false
		lenient, _ = h.A.Latest(ref)
		e1Compare(sc, h, col, "latest", ref, tip, err, wantTip, strict, lenient)

		// from every checkpoint
		for _, k := range cps[ref] {
			tip, err = policy.NewPolicyVerifier(h.MS).VerifyRefFromEntry(world_ctx, ref, h.IDs[k])
			h.A.PropagationStrict = true
			strict = h.A.VerifyFrom(ref, k, last)
			h.A.PropagationStrict = false
			lenient = h.A.VerifyFrom(ref, k, last)
			e1Compare(sc, h, col, "from-entry", ref, tip, err, wantTip, strict, lenient)
		}
	}
	return out
}

func e1Compare(sc *e1Scenario, h *hist.Hist, col *evid.Collector, mode, ref string, tip githash.Hash, err error, wantTip githash.Hash, strict, lenient refver.Verdict) {
	col.Inc("evaluations")
	col.Inc("verifications")
	ec := e1ErrClass(err)
	if err == nil {
		col.Inc("impl_accepts")
	} else {
		col.Inc("impl_rejects")
	}
	col.Class("%s/%s/impl=%s/oracle=%s", sc.Name, mode, ec, strict)
	if strict.OK && strict.Recovered > 0 && err == nil {
		col.Inc("accepted_through_recovery")
	}
	rp := e1Replay{Scenario: sc.Name, Events: h.Events, Mode: mode, Ref: ref}
	desc := fmt.Sprintf("[%s] %s(%s): impl=%s oracle=%s", h.Describe(), mode, ref, ec, strict)
	prop := sc.Name[:3]
	switch {
	case err == nil && !strict.OK && lenient.OK:
		col.Violation(prop+":unverified-propagation-entry:ref-protected", desc+" (a propagation entry for the reference is never verified)", rp)
	case err == nil && !lenient.OK && prop == "C11" && strings.Contains(lenient.Reason, "delegation-rules-unmet") && h.A.PolicyInForceAt(lenient.At) != nil && len(h.A.PolicyInForceAt(lenient.At).Global) > 0:
		col.Violation("C11:global-rule-weakens:delegation-rules-bypassed-when-any-global-rule-exists", desc+" (the policy in force declares a global rule; the unmet delegation rule is never consulted)", rp)
	case err == nil && !lenient.OK && e1EarlierTagEntrySamePolicy(h, lenient.At) && strings.Contains(lenient.Reason, "delegation-rules-unmet"):
		col.Violation(prop+":tag-entry-accepted-below-threshold-after-an-earlier-entry-for-the-tag-under-the-same-policy-state", desc+" (verifying the first tag entry lowers the threshold of the policy state's memoised verifier to 1)", rp)
	case err == nil && !lenient.OK:
		col.Violation(fmt.Sprintf("%s:false-accept:%s:%s", prop, mode, strings.SplitN(lenient.Reason, ":", 2)[0]), desc, rp)
	case err != nil && lenient.OK && strict.OK && h.A.AllPoliciesValid() && !e1TagMoved(h, ref):
		col.Violation(fmt.Sprintf("%s:false-reject:%s:%s", prop, mode, ec), desc+" ("+err.Error()+")", rp)
	case err == nil && !tip.Equal(wantTip):
		col.Violation(prop+":wrong-tip:"+mode, desc+fmt.Sprintf(" tip=%s want=%s", tip, wantTip), rp)
	}
}

// e1TagMoved: ref is a tag that the history records at two different tag
// objects. gittuf treats tags as immutable ("any tag" is a brand new reference
// in the design document; verifyTagEntry requires the tag reference to still
// be at the entry's target), so once a tag has been moved its earlier entries
// no longer verify. That such a history verifies is not demanded (only
// soundness is judged for it).
func e1TagMoved(h *hist.Hist, ref string) bool {
	first := ""
	for _, e := range h.A.Entries {
		if e.Kind != refver.Push || !e.IsTag || e.Ref != ref {
			continue
		}
		if first == "" {
			first = e.Commit
		} else if e.Commit != first {
			return true
		}
	}
	return false
}

// e1EarlierTagEntrySamePolicy: entry at is a tag entry and an earlier entry
// for the same tag was judged under the same policy state.
func e1EarlierTagEntrySamePolicy(h *hist.Hist, at int) bool {
	if at < 0 || at >= len(h.A.Entries) || !h.A.Entries[at].IsTag {
		return false
	}
	for j := at - 1; j >= 0; j-- {
		e := h.A.Entries[j]
		if e.Kind == refver.PolicyEntry {
			return false
		}
		if e.Kind == refver.Push && e.IsTag && e.Ref == h.A.Entries[at].Ref {
			return true
		}
	}
	return false
}

// e1Explore runs the DFS of one scenario, sharded on the first two events.
func e1Explore(sc *e1Scenario, col *evid.Collector, itemBase *int) {
	root, err := e1Start(sc)
	if err != nil {
		col.Fail(err.Error())
		return
	}
	judge := sc.Judge
	if judge == nil {
		judge = e1Judge
	}
	cps := judge(sc, root, map[string][]int{}, col)
	col.Inc("nodes")
	var dfs func(h *hist.Hist, cps map[string][]int, depth int)
	dfs = func(h *hist.Hist, cps map[string][]int, depth int) {
		if depth == sc.Depth || col.Expired() {
			return
		}
		for _, ev := range sc.Menu(h, depth) {
			if depth == 1 || (depth == 0 && sc.Depth == 1) {
				*itemBase++
				if !evid.Mine(*itemBase) {
					continue
				}
			}
			n := h.Fork()
			if err := n.Apply(ev); err != nil {
				col.Fail(fmt.Sprintf("%s: applying %s after [%s]: %v", sc.Name, ev, h.Describe(), err))
				return
			}
			col.Inc("nodes")
			col.Inc("transitions")
			ncps := cps
			// depth-0 nodes are shared by all shards: judge them in shard 0 only
			if depth > 0 || evid.Mine(0) || sc.Depth == 1 {
				ncps = judge(sc, n, cps, col)
			} else {
				ncps = judge(sc, n, cps, evid.New("discard"))
			}
			if depth+1 == sc.Depth {
				col.Sample(map[string]any{"scenario": sc.Name, "history": n.Describe()})
			}
			dfs(n, ncps, depth+1)
			if depth == 0 {
				rsl.ResetCacheForVerif()
			}
		}
	}
	dfs(root, cps, 0)
}

// e1ExploreTiers explores the scenarios of a check. In the thorough tier they
// are first explored at the quick tier's depth, then at the thorough depth, so
// that a run stopped by its time cap has covered every scenario at least as
// deeply as the quick tier instead of only the first scenarios.
func e1ExploreTiers(mk func(thorough bool) []*e1Scenario, prep func([]*e1Scenario), col *evid.Collector) {
	item := 0
	tiers := []bool{false}
	if evid.Thorough() {
		tiers = []bool{false, true}
	}
	for _, th := range tiers {
		scs := mk(th)
		if prep != nil {
			prep(scs)
		}
		for _, sc := range scs {
			e1Explore(sc, col, &item)
		}
	}
}

func e1Replayer(scs []*e1Scenario, col *evid.Collector) bool {
	rf := evid.ReplayFile()
	if rf == "" {
		return false
	}
	var r e1Replay
	if err := evid.LoadReplay(rf, &r); err != nil {
		col.Fail(err.Error())
		return true
	}
	for _, sc := range scs {
		if sc.Name != r.Scenario {
			continue
		}
		h, err := e1Start(sc)
		if err != nil {
			col.Fail(err.Error())
			return true
		}
		judge := sc.Judge
		if judge == nil {
			judge = e1Judge
		}
		cps := judge(sc, h, map[string][]int{}, col)
		skip := len(h.Events)
		for _, ev := range r.Events[skip:] {
			if err := h.Apply(ev); err != nil {
				col.Fail(err.Error())
				return true
			}
			cps = judge(sc, h, cps, col)
		}
		return true
	}
	col.Fail("replay: unknown scenario " + r.Scenario)
	return true
}
