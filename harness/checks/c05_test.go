package checks

import (
	"errors"
	"fmt"
	"sort"
	"strings"
	"testing"

	"github.com/gittuf/gittuf/internal/common/set"
	"github.com/gittuf/gittuf/internal/policy"
	sslibdsse "github.com/gittuf/gittuf/internal/third_party/go-securesystemslib/dsse"
	"github.com/gittuf/gittuf/pkg/githash"
	"github.com/gittuf/gittuf/verif/evid"
	"github.com/gittuf/gittuf/verif/hist"
	"github.com/gittuf/gittuf/verif/keys"
	"github.com/gittuf/gittuf/verif/memstore"
	"github.com/gittuf/gittuf/verif/world"
)

// C05 — every (rule shape, threshold, Git-object signer, envelope signer
// multiset, principal order) of a bounded domain is given to the real
// SignatureVerifier obtained, as in production, from State.FindVerifiersForPath
// on a state loaded from the store; the oracle is a maximum bipartite matching
// between principals and valid distinct keys.

type c05Shape struct {
	Name       string
	Principals []hist.PrincipalSpec // in declaration order; Person when >1 key or shared
	Shared     bool
}

func c05Shapes(thorough bool) []c05Shape {
	person := func(id string, ks ...string) hist.PrincipalSpec {
		return hist.PrincipalSpec{ID: id, Keys: ks, Identities: map[string]string{}}
	}
	key := func(k string) hist.PrincipalSpec { return hist.PrincipalSpec{Keys: []string{k}} }
	shapes := []c05Shape{
		{Name: "none"},
		{Name: "k1,k2", Principals: []hist.PrincipalSpec{key("K1"), key("K2")}},
		{Name: "k1,k2,k3", Principals: []hist.PrincipalSpec{key("K1"), key("K2"), key("K3")}},
		{Name: "A{k1,k2},k3", Principals: []hist.PrincipalSpec{person("A", "K1", "K2"), key("K3")}},
		{Name: "A{k1},B{k1}", Principals: []hist.PrincipalSpec{person("A", "K1"), person("B", "K1")}, Shared: true},
		{Name: "A{k1,k2},B{k2}", Principals: []hist.PrincipalSpec{person("A", "K1", "K2"), person("B", "K2")}, Shared: true},
		{Name: "A{k1,k2},B{k2,k3},C{k3}", Principals: []hist.PrincipalSpec{person("A", "K1", "K2"), person("B", "K2", "K3"), person("C", "K3")}, Shared: true},
	}
	if thorough {
		shapes = append(shapes,
			c05Shape{Name: "k1,k2,k3,k4", Principals: []hist.PrincipalSpec{key("K1"), key("K2"), key("K3"), key("K4")}},
			c05Shape{Name: "A{k1,k2},B{k1,k2},C{k3},k4", Principals: []hist.PrincipalSpec{person("A", "K1", "K2"), person("B", "K1", "K2"), person("C", "K3"), key("K4")}, Shared: true},
		)
	}
	return shapes
}

func c05Perms(n int) [][]int {
	if n == 0 {
		return [][]int{{}}
	}
	out := [][]int{}
	var rec func(cur []int, used []bool)
	rec = func(cur []int, used []bool) {
		if len(cur) == n {
			out = append(out, append([]int(nil), cur...))
			return
		}
		for i := 0; i < n; i++ {
			if !used[i] {
				used[i] = true
				rec(append(cur, i), used)
				used[i] = false
			}
		}
	}
	rec(nil, make([]bool, n))
	return out
}

// c05Matching is the size of a maximum matching principals -> valid keys.
func c05Matching(owns map[string][]string, valid map[string]bool) int {
	pids := []string{}
	for p := range owns {
		pids = append(pids, p)
	}
	sort.Strings(pids)
	matchKey := map[string]string{} // key -> principal
	var try func(p string, seen map[string]bool) bool
	try = func(p string, seen map[string]bool) bool {
		for _, k := range owns[p] {
			if !valid[k] || seen[k] {
				continue
			}
			seen[k] = true
			if q, taken := matchKey[k]; !taken || try(q, seen) {
				matchKey[k] = p
				return true
			}
		}
		return false
	}
	n := 0
	for _, p := range pids {
		if try(p, map[string]bool{}) {
			n++
		}
	}
	return n
}

type c05Case struct {
	Shape     string   `json:"shape"`
	Threshold int      `json:"threshold"`
	Order     []int    `json:"order"`
	GitSigner string   `json:"git_signer"`
	EnvSigner []string `json:"env_signers"`
	Extra     string   `json:"extra"`
}

func TestC05(t *testing.T) {
	col := evid.New("C05")
	defer func() {
		if err := col.Write(); err != nil {
			t.Fatal(err)
		}
	}()
	thorough := evid.Thorough()
	shapes := c05Shapes(thorough)
	col.Rule("for each of %d rule shapes (no principals; 2-4 key principals; persons with two keys; one key under two principals; a person's second key equal to another principal's key; chains of shared keys), each threshold 0..5, each Git-object signer (every key of the shape, an untrusted key, unsigned), each envelope signer set (every subset of the shape's keys plus the untrusted key; additionally with a signature lifted from another payload, or with a duplicated signature) and EVERY permutation of the principal order (hook set.VerifOrderHook): the verifier returned by State.FindVerifiersForPath on a policy state loaded from the store is run; oracle = maximum bipartite matching principals->valid distinct keys (soundness always; exactness when no keys are shared; never satisfied for threshold<1 or no principals; returned principals must really have signed). A class is (shape, threshold, accepted?, matching size)", len(shapes))
	col.Assume("ideal cryptography (real ed25519/sshsig, no forged bit patterns); GPG and sigstore keys not in the alphabet; map iteration order of a Person's keys is not controlled (irrelevant: all keys of a principal are tried)")

	var replay *c05Case
	if rf := evid.ReplayFile(); rf != "" {
		replay = &c05Case{}
		if err := evid.LoadReplay(rf, replay); err != nil {
			col.Fail(err.Error())
			return
		}
	}
	defer func() { set.VerifOrderHook = nil }()

	item := 0
	for _, sh := range shapes {
		for thr := 0; thr <= 5; thr++ {
			item++
			if replay == nil && !evid.Mine(item) {
				continue
			}
			if replay != nil && (replay.Shape != sh.Name || replay.Threshold != thr) {
				continue
			}
			c05RunShape(col, sh, thr, replay)
			if col.Expired() {
				return
			}
		}
	}
}

func c05RunShape(col *evid.Collector, sh c05Shape, thr int, replay *c05Case) {
	ms := memstore.New()
	// policy with the rule under test
	spec := stdPolicy("c05", map[string]hist.FileSpec{})
	spec.Principals = map[string]hist.PrincipalSpec{}
	names := []string{}
	for i, p := range sh.Principals {
		n := fmt.Sprintf("p%d", i)
		spec.Principals[n] = p
		names = append(names, n)
	}
	spec.Files["targets"] = hist.FileSpec{Rules: []hist.RuleSpec{{Name: "rule", Patterns: []string{"git:" + refMain}, Principals: names, Threshold: thr}}, Signers: []string{"T0"}}
	st := spec.Build(1)
	commit, err := world.PublishPolicy(ms, st, false)
	if err != nil {
		col.Fail("publish: " + err.Error())
		return
	}
	// principal id -> key ids ; key universe
	owns := map[string][]string{}
	keyNames := []string{}
	seenKey := map[string]bool{}
	pidsSorted := []string{}
	for i := range sh.Principals {
		pid := spec.PrincipalID(names[i])
		pidsSorted = append(pidsSorted, pid)
		for _, k := range sh.Principals[i].Keys {
			owns[pid] = append(owns[pid], keys.Get(k).KeyID)
			if !seenKey[k] {
				seenKey[k] = true
				keyNames = append(keyNames, k)
			}
		}
	}
	sort.Strings(pidsSorted)
	sort.Strings(keyNames)
	universe := append(append([]string(nil), keyNames...), "U")

	// Git objects: one commit per possible signer
	tree, _ := ms.EmptyTree()
	gitObj := map[string]githash.Hash{}
	for _, s := range append([]string{""}, universe...) {
		var pem []byte
		if s != "" {
			pem = keys.Get(s).PEM
		}
		id, err := ms.PutCommit(tree, nil, "object signed by "+s+"\n", pem)
		if err != nil {
			col.Fail(err.Error())
			return
		}
		gitObj[s] = id
	}
	// envelopes
	type envCase struct {
		signers []string
		extra   string
		env     *sslibdsse.Envelope
	}
	envs := []envCase{{nil, "no-envelope", nil}}
	for mask := 0; mask < 1<<len(universe); mask++ {
		signers := []string{}
		for i, k := range universe {
			if mask&(1<<i) != 0 {
				signers = append(signers, k)
			}
		}
		for _, extra := range []string{"", "lifted", "duplicate"} {
			env, err := hist.AuthEnvelope(refMain, "0000000000000000000000000000000000000000", tree.String(), false, signers)
			if err != nil {
				col.Fail(err.Error())
				return
			}
			switch extra {
			case "lifted":
				// a valid signature by the first key NOT in the set, over other bytes
				var who string
				for _, k := range keyNames {
					in := false
					for _, s := range signers {
						if s == k {
							in = true
						}
					}
					if !in {
						who = k
						break
					}
				}
				if who == "" {
					continue
				}
				env.Signatures = append(env.Signatures, keys.LiftedSignature(keys.Get(who)))
			case "duplicate":
				if len(env.Signatures) == 0 {
					continue
				}
				env.Signatures = append(env.Signatures, env.Signatures[0])
			}
			envs = append(envs, envCase{signers, extra, env})
		}
	}

	perms := c05Perms(len(sh.Principals))
	for _, perm := range perms {
		if replay != nil && fmt.Sprint(perm) != fmt.Sprint(replay.Order) {
			continue
		}
		perm := perm
		set.VerifOrderHook = func(n int) []int {
			if n == len(perm) {
				return perm
			}
			return nil
		}
		state, err := policy.LoadStateFromCommit(ms, commit)
		if err != nil {
			col.Fail("load: " + err.Error())
			return
		}
		verifiers, err := state.FindVerifiersForPath("git:" + refMain)
		set.VerifOrderHook = nil
		if err != nil || len(verifiers) != 1 {
			col.Fail(fmt.Sprintf("FindVerifiersForPath: %v (%d verifiers)", err, len(verifiers)))
			return
		}
		v := verifiers[0]
		for _, gs := range append([]string{""}, universe...) {
			for _, ec := range envs {
				cs := c05Case{Shape: sh.Name, Threshold: thr, Order: perm, GitSigner: gs, EnvSigner: ec.signers, Extra: ec.extra}
				if replay != nil && (replay.GitSigner != gs || replay.Extra != ec.extra || strings.Join(replay.EnvSigner, ",") != strings.Join(ec.signers, ",")) {
					continue
				}
				used, err := v.Verify(world_ctx, gitObj[gs], ec.env)
				col.Inc("evaluations")
				// oracle
				valid := map[string]bool{}
				if gs != "" {
					valid[keys.Get(gs).KeyID] = true
				}
				for _, s := range ec.signers {
					valid[keys.Get(s).KeyID] = true
				}
				m := c05Matching(owns, valid)
				count := 0
				signed := map[string]bool{}
				for pid, ks := range owns {
					for _, k := range ks {
						if valid[k] {
							signed[pid] = true
						}
					}
					if signed[pid] {
						count++
					}
				}
				accepted := err == nil
				if accepted {
					col.Inc("accepted")
				} else {
					col.Inc("rejected")
				}
				col.Class("%s/thr%d/accepted=%v/matching=%d", sh.Name, thr, accepted, m)
				desc := fmt.Sprintf("shape %s threshold %d order %v git-signer=%q envelope-signers=%v %s: err=%v used=%v matching=%d", sh.Name, thr, perm, gs, ec.signers, ec.extra, err, c05SetStr(used), m)
				if err != nil && !errors.Is(err, policy.ErrVerifierConditionsUnmet) && !errors.Is(err, policy.ErrInvalidVerifier) {
					// any other error is still a rejection (e.g. an envelope
					// without signatures); the statement only constrains
					// when a rule is SATISFIED
					col.Inc("rejected_with_other_error")
				}
				if accepted && (thr < 1 || len(sh.Principals) == 0) {
					col.Violation("C05:satisfied-with-threshold-below-one-or-no-principals", desc, cs)
					continue
				}
				if accepted && m < thr {
					sig := "C05:accepted-with-fewer-distinct-principal-key-pairs-than-threshold"
					if sh.Shared {
						sig += ":shared-keys"
					}
					col.Violation(sig, desc, cs)
					continue
				}
				if !sh.Shared && thr >= 1 && len(sh.Principals) > 0 && !accepted && count >= thr {
					col.Violation("C05:rejected-although-enough-distinct-principals-signed", desc, cs)
					continue
				}
				if used != nil {
					for _, pid := range used.Contents() {
						if !signed[pid] {
							col.Violation("C05:credited-principal-that-did-not-sign", desc, cs)
						}
					}
				}
			}
		}
		if col.Expired() {
			return
		}
	}
	col.Sample(map[string]any{"shape": sh.Name, "threshold": thr, "principal_orders": len(perms), "git_signers": len(universe) + 1, "envelopes": len(envs)})
}

func c05SetStr(s *set.Set[string]) string {
	if s == nil {
		return "nil"
	}
	c := s.Contents()
	sort.Strings(c)
	out := []string{}
	for _, x := range c {
		if len(x) > 14 {
			x = x[:14]
		}
		out = append(out, x)
	}
	return "{" + strings.Join(out, ",") + "}"
}
