package checks

import (
	"fmt"
	"strings"
	"testing"

	"github.com/gittuf/gittuf/pkg/githash"
	"github.com/gittuf/gittuf/pkg/gitstore"
	"github.com/gittuf/gittuf/pkg/rsl"
	"github.com/gittuf/gittuf/verif/evid"
	"github.com/gittuf/gittuf/verif/hist"
	"github.com/gittuf/gittuf/verif/memstore"
	"github.com/gittuf/gittuf/verif/world"
)

// C17 — controlled scheduler with iterative preemption bounding. 2-3
// goroutines each run one real recording operation against one shared store;
// every storage step (the commit methods are three steps) is a scheduling
// point; exactly one goroutine runs at a time, so an execution is a
// deterministic function of the choice sequence. Stateless DFS with prefix
// replay enumerates every schedule up to the preemption bound.

type c17Writer struct {
	Name    string
	Content string // substring that identifies the entry this writer records
	run     func(ms *memstore.Store) error
}

type c17Scenario struct {
	Name    string
	Start   string // "empty" | "log2"
	Writers []c17Writer
}

type c17Point struct {
	enabled []int // canonical order: running thread first if enabled, then ascending ids
	chosen  int   // index into enabled
	running int   // thread that ran the previous step (-1 at the start)
}

type c17Exec struct {
	points  []c17Point
	errs    []error
	final   *memstore.Store
	trace   []string
	diverge string
}

type c17Msg struct {
	tid  int
	done bool
	step string
}

func c17World(start string) (*memstore.Store, *hist.World) {
	ms := memstore.New()
	w := c01World(ms)
	if start == "log2" {
		must(rsl.NewReferenceEntry(refMain, w.Commits["c0"]).Commit(ms, false))
		must(rsl.NewReferenceEntry(refFeat, w.Commits["c0"]).Commit(ms, false))
	}
	return ms, w
}

func c17Scenarios() []c17Scenario {
	rec := func(name, ref, commit string) c17Writer {
		return c17Writer{Name: name, Content: "ref: " + ref + "\ntargetID: ", run: nil}
	}
	_ = rec
	return []c17Scenario{
		{Name: "record+record", Start: "empty"},
		{Name: "record+record", Start: "log2"},
		{Name: "record+annotate", Start: "log2"},
		{Name: "record+stage", Start: "log2"},
		{Name: "annotate+annotate", Start: "log2"},
		{Name: "record+record+record", Start: "log2"},
		{Name: "record+annotate+stage", Start: "log2"},
	}
}

func c17Writers(sc c17Scenario, base *memstore.Store, w *hist.World) []c17Writer {
	record := func(i int, ref, commit string) c17Writer {
		return c17Writer{Name: fmt.Sprintf("record(%s,%s)", strings.TrimPrefix(ref, "refs/heads/"), commit), Content: "ref: " + ref + "\ntargetID: " + w.Commits[commit].String(),
			run: func(ms *memstore.Store) error { return rsl.NewReferenceEntry(ref, w.Commits[commit]).Commit(ms, false) }}
	}
	annotate := func(msg string) c17Writer {
		first := world.WalkRSL(base)
		id, _ := githash.NewHash(first[len(first)-1].ID)
		marker := map[string]string{"m1": "bTE=", "m2": "bTI="}[msg]
		return c17Writer{Name: "annotate(#1," + msg + ")", Content: marker,
			run: func(ms *memstore.Store) error {
				return rsl.NewAnnotationEntry([]githash.Hash{id}, true, msg).Commit(ms, false)
			}}
	}
	stage := func() c17Writer {
		spec := stdPolicy("P0", map[string]hist.FileSpec{"targets": {Rules: []hist.RuleSpec{mainRule([]string{"P0"}, 1)}}})
		return c17Writer{Name: "stage-policy", Content: "ref: refs/gittuf/policy-staging",
			run: func(ms *memstore.Store) error { return spec.Build(1).Commit(ms, "stage", true, false) }}
	}
	switch sc.Name {
	case "record+record":
		return []c17Writer{record(0, refMain, "c1"), record(1, refFeat, "c2")}
	case "record+annotate":
		return []c17Writer{record(0, refMain, "c1"), annotate("m1")}
	case "record+stage":
		return []c17Writer{record(0, refMain, "c1"), stage()}
	case "annotate+annotate":
		return []c17Writer{annotate("m1"), annotate("m2")}
	case "record+record+record":
		return []c17Writer{record(0, refMain, "c1"), record(1, refFeat, "c2"), record(2, "refs/heads/third", "c1")}
	case "record+annotate+stage":
		return []c17Writer{record(0, refMain, "c1"), annotate("m1"), stage()}
	}
	panic("unknown scenario " + sc.Name)
}

// c17Run executes one schedule: prefix gives the choices at the first points,
// later points take choice 0 (keep running the current thread).
func c17Run(sc c17Scenario, prefix []int) *c17Exec {
	base, w := c17World(sc.Start)
	writers := c17Writers(sc, base, w)
	rsl.ResetCacheForVerif()
	n := len(writers)
	toSched := make(chan c17Msg)
	resume := make([]chan struct{}, n)
	x := &c17Exec{errs: make([]error, n), final: base}
	for i := range writers {
		resume[i] = make(chan struct{})
		i := i
		view := &memstore.Store{DB: base.DB, Refs: base.Refs}
		view.Hook = func(step string, args ...string) error {
			toSched <- c17Msg{tid: i, step: step + " " + strings.Join(args, " ")}
			<-resume[i]
			return nil
		}
		go func() {
			<-resume[i] // wait to be started
			err := writers[i].run(view)
			x.errs[i] = err
			toSched <- c17Msg{tid: i, done: true}
		}()
	}
	parked := make([]bool, n)
	finished := make([]bool, n)
	pending := make([]string, n)
	// start every thread and let it run to its first step
	for i := 0; i < n; i++ {
		resume[i] <- struct{}{}
		m := <-toSched
		if m.done {
			finished[m.tid] = true
		} else {
			parked[m.tid] = true
			pending[m.tid] = m.step
		}
	}
	running := -1
	for {
		enabled := []int{}
		if running >= 0 && parked[running] {
			enabled = append(enabled, running)
		}
		for i := 0; i < n; i++ {
			if parked[i] && i != running {
				enabled = append(enabled, i)
			}
		}
		if len(enabled) == 0 {
			break
		}
		choice := 0
		if len(x.points) < len(prefix) {
			choice = prefix[len(x.points)]
			if choice >= len(enabled) {
				x.diverge = fmt.Sprintf("replay divergence at point %d: choice %d of %d enabled", len(x.points), choice, len(enabled))
				choice = 0
			}
		}
		x.points = append(x.points, c17Point{enabled: enabled, chosen: choice, running: running})
		t := enabled[choice]
		x.trace = append(x.trace, fmt.Sprintf("T%d:%s", t, pending[t]))
		parked[t] = false
		running = t
		resume[t] <- struct{}{}
		m := <-toSched
		if m.done {
			finished[m.tid] = true
		} else {
			parked[m.tid] = true
			pending[m.tid] = m.step
		}
	}
	return x
}

func (x *c17Exec) choices() []int {
	out := make([]int, len(x.points))
	for i, p := range x.points {
		out[i] = p.chosen
	}
	return out
}

// preemptionsBefore counts switches away from a still-enabled thread among the
// first i points.
func (x *c17Exec) preemptionsBefore(i int) int {
	n := 0
	for j := 0; j < i; j++ {
		p := x.points[j]
		if p.running >= 0 && len(p.enabled) > 0 && p.enabled[0] == p.running && p.chosen != 0 {
			n++
		}
	}
	return n
}

type c17Replay struct {
	Scenario string   `json:"scenario"`
	Start    string   `json:"start"`
	Choices  []int    `json:"choices"`
	Trace    []string `json:"trace,omitempty"`
	Lane     string   `json:"lane,omitempty"` // "" = in-memory store, "G" = real git repository
}

// c17Check evaluates the oracle on one complete execution of lane M.
func c17Check(sc c17Scenario, x *c17Exec, col *evid.Collector) {
	base, w := c17World(sc.Start)
	writers := c17Writers(sc, base, w)
	names, contents := []string{}, []string{}
	for _, wr := range writers {
		names = append(names, wr.Name)
		contents = append(contents, wr.Content)
	}
	rp := c17Replay{Scenario: sc.Name, Start: sc.Start, Choices: x.choices(), Trace: x.trace}
	where := fmt.Sprintf("%s from %s, schedule %s", sc.Name, sc.Start, strings.Join(x.trace, " | "))
	c17Judge(sc, "M", where, rp, names, contents, x.errs, len(world.WalkRSL(base)), world.WalkRSL(x.final), x.final, x.preemptionsBefore(len(x.points)), col)
}

// c17Judge is the oracle shared by both lanes: log is the final chain read raw
// (newest first), readers is a handle on the final store for pkg/rsl's readers.
func c17Judge(sc c17Scenario, lane, where string, rp c17Replay, names, contents []string, errs []error, startLen int, log []world.RSLEntry, readers gitstore.Storer, preemptions int, col *evid.Collector) {
	outcome := []string{}
	added := log
	if len(log) >= startLen {
		added = log[:len(log)-startLen]
	} else {
		col.Violation("C17:earlier-entries-lost", fmt.Sprintf("%s: the log had %d entries before and has %d after", where, startLen, len(log)), rp)
		return
	}
	for i, name := range names {
		count := 0
		for _, e := range added {
			if strings.Contains(e.Text, contents[i]) {
				count++
			}
		}
		switch {
		case errs[i] == nil && count == 0:
			col.Violation("C17:lost-entry-reported-as-recorded", fmt.Sprintf("%s: %s returned nil but its entry is not in the log", where, name), rp)
		case errs[i] == nil && count > 1:
			col.Violation("C17:entry-appears-more-than-once", fmt.Sprintf("%s: %s appears %d times", where, name, count), rp)
		case errs[i] != nil && count > 0:
			col.Violation("C17:failed-operation-left-a-trace", fmt.Sprintf("%s: %s failed (%v) but its entry is in the log", where, name, errs[i]), rp)
		}
		if errs[i] == nil {
			outcome = append(outcome, "ok")
		} else {
			outcome = append(outcome, "err")
		}
	}
	col.Class("%s/%s/%s/%s/log+%d", lane, sc.Name, sc.Start, strings.Join(outcome, ","), len(added))
	// chain shape and numbering on raw commits
	if msg := world.CheckChain(log); msg != "" {
		sig := "C17:log-not-a-valid-chain"
		if strings.Contains(msg, "but its parent has") || strings.Contains(msg, "but its parent is numbered") {
			// the known race needs a foreign entry to land between a writer's
			// two reads of the tip, i.e. at least one preemption; a wrong
			// number in a schedule that runs the writers one after the other
			// is a different defect
			if preemptions > 0 {
				sig = "C17:number-does-not-follow-parent:tip-read-for-numbering-stale-when-commit-reads-it-again"
			} else {
				sig = "C17:number-does-not-follow-parent:in-a-schedule-without-preemption"
			}
		}
		col.Violation(sig, where+": "+msg, rp)
		return
	}
	seen := map[uint64]bool{}
	for _, e := range log {
		n := world.ParseText(e.Text).Number
		if n != 0 && seen[n] {
			col.Violation("C17:two-entries-share-a-number", fmt.Sprintf("%s: number %d twice", where, n), rp)
			return
		}
		seen[n] = true
	}
	// every reader can walk it end to end with a cold cache
	rsl.ResetCacheForVerif()
	if len(log) > 0 {
		if _, _, err := rsl.GetFirstEntry(readers); err != nil {
			col.Violation("C17:readers-cannot-walk-the-log", fmt.Sprintf("%s: GetFirstEntry: %v", where, err), rp)
			return
		}
		first, _ := githash.NewHash(log[len(log)-1].ID)
		last, _ := githash.NewHash(log[0].ID)
		if _, _, err := rsl.GetReferenceUpdaterEntriesInRange(readers, first, last); err != nil {
			col.Violation("C17:readers-cannot-walk-the-log", fmt.Sprintf("%s: range reader: %v", where, err), rp)
		}
	}
}

func c17Explore(sc c17Scenario, bound int, col *evid.Collector, item *int) {
	// determinism self-check: the same schedule twice gives the same trace
	a, b := c17Run(sc, nil), c17Run(sc, nil)
	if strings.Join(a.trace, "|") != strings.Join(b.trace, "|") {
		col.Fail("scheduler is not deterministic for " + sc.Name)
		return
	}
	var explore func(prefix []int, depth int)
	explore = func(prefix []int, depth int) {
		if col.Expired() {
			return
		}
		x := c17Run(sc, prefix)
		if x.diverge != "" {
			col.Fail(x.diverge)
			return
		}
		col.Inc("evaluations")
		col.Inc("schedules")
		col.Inc("states")
		col.Inc("traces_validated_against_impl")
		col.Add("transitions", int64(len(x.points)))
		c17Check(sc, x, col)
		for i := len(prefix); i < len(x.points); i++ {
			p := x.points[i]
			cost := x.preemptionsBefore(i)
			runningEnabled := p.running >= 0 && len(p.enabled) > 0 && p.enabled[0] == p.running
			if runningEnabled {
				cost++
			}
			if bound >= 0 && cost > bound {
				continue
			}
			for alt := 1; alt < len(p.enabled); alt++ {
				if depth == 0 {
					*item++
					if !evid.Mine(*item) {
						continue
					}
				}
				np := append(append([]int{}, x.choices()[:i]...), alt)
				explore(np, depth+1)
			}
		}
	}
	explore(nil, 0)
}

func TestC17(t *testing.T) {
	col := evid.New("C17")
	defer func() {
		if err := col.Write(); err != nil {
			t.Fatal(err)
		}
	}()
	thorough := evid.Thorough()
	bound2, bound3 := -1, 2 // -1: unbounded (all interleavings)
	if thorough {
		bound3 = 3
	}
	col.Bound("preemption_bound_2_writers", "unbounded")
	col.Bound("preemption_bound_3_writers", bound3)
	col.Rule("controlled scheduler over the real recording code: writers {record, annotate, stage policy} as 2 or 3 goroutines on one shared store, a scheduling point before every storage step (GetReference, GetCommitMessage, ..., and the three internal steps read tip | write object | compare-and-set of the commit methods); stateless depth-first search with choice-prefix replay; 2-writer scenarios: ALL interleavings; 3-writer scenarios: all schedules with <= %d preemptions (iterative context bounding). For every complete execution: each operation either failed and left no entry or succeeded and its entry appears exactly once; the final log is a single-parent chain with consecutive numbers (independent raw-commit walker); no number twice; the real readers walk it with a cold cache. states counts schedules, transitions counts scheduling points. A class is (scenario, start, per-writer outcome, entries added)", bound3)
	col.Assume("interleaving at the granularity of storage-interface calls (each call atomic; commit = 3 steps); the Go memory model below that granularity is not explored (separate -race run is auxiliary); real-process random scheduling is sampling and is not claimed")
	scs := c17Scenarios()
	if rf := evid.ReplayFile(); rf != "" {
		var r c17Replay
		if err := evid.LoadReplay(rf, &r); err != nil {
			col.Fail(err.Error())
			return
		}
		for _, sc := range scs {
			if sc.Name == r.Scenario && sc.Start == r.Start && r.Lane == "G" {
				c17GReplay(t, sc, r, col)
				return
			}
			if sc.Name == r.Scenario && sc.Start == r.Start {
				for round := 0; round < 5; round++ {
					x := c17Run(sc, r.Choices)
					if x.diverge != "" {
						col.Fail(x.diverge)
						return
					}
					col.Inc("evaluations")
					col.Inc("schedules")
					c17Check(sc, x, col)
				}
			}
		}
		return
	}
	item := 0
	for _, sc := range scs {
		bound := bound2
		if strings.Count(sc.Name, "+") == 2 {
			bound = bound3
		}
		c17Explore(sc, bound, col, &item)
	}
	// lane G: the same exploration on real git repositories
	boundG2, boundG3 := 2, 1
	if thorough {
		boundG2, boundG3 = -1, 2
	}
	col.Bound("lane_g_preemption_bound_2_writers", map[bool]any{true: "unbounded", false: boundG2}[boundG2 < 0])
	col.Bound("lane_g_preemption_bound_3_writers", boundG3)
	for _, sc := range scs {
		if strings.Contains(sc.Name, "stage") {
			continue
		}
		bound := boundG2
		if strings.Count(sc.Name, "+") == 2 {
			bound = boundG3
		}
		c17GExplore(t, sc, bound, col, &item)
	}
	// states := schedules (each complete schedule ends in one final state)
	col.Sample(map[string]any{"scenario": "record+record from log2", "example_schedule": c17Run(scs[1], []int{0, 0, 1}).trace})
}
