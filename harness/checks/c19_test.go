package checks

import (
	"fmt"
	"strings"
	"testing"

	"github.com/gittuf/gittuf/internal/policy"
	"github.com/gittuf/gittuf/pkg/githash"
	"github.com/gittuf/gittuf/pkg/rsl"
	"github.com/gittuf/gittuf/verif/evid"
	"github.com/gittuf/gittuf/verif/hist"
	"github.com/gittuf/gittuf/verif/memstore"
	"github.com/gittuf/gittuf/verif/refver"
)

// C19 — differential between two real code paths: VerifyMergeable's prediction
// versus VerifyRefFull after the predicted merge has been recorded by each
// candidate recorder, over a product of policies, prior approvals, feature
// histories and merge shapes.

type c19Case struct {
	Threshold int      `json:"threshold"`
	FileRule  bool     `json:"file_rule"`
	Global    bool     `json:"global_threshold_2"`
	GlobalThr int      `json:"global_threshold,omitempty"` // 0 with Global set = 2
	AuthBy    []string `json:"authorization_signers"`
	Reviewers []string `json:"code_review_approvers"`
	Commits   []string `json:"feature_commits"` // "<signer>:<path>"
	Merge     bool     `json:"needs_merge_commit"`
}

func (c c19Case) String() string {
	return fmt.Sprintf("thr=%d file-rule=%v global=%d auth-by=%s reviewers=%s feature=%s merge-commit=%v", c.Threshold, c.FileRule, c.globalThr(), strings.Join(c.AuthBy, "+"), strings.Join(c.Reviewers, "+"), strings.Join(c.Commits, ","), c.Merge)
}

func (c c19Case) globalThr() int {
	if c.Global && c.GlobalThr == 0 {
		return 2
	}
	return c.GlobalThr
}

func c19Policy(cs c19Case) *hist.PolicySpec {
	rules := []hist.RuleSpec{{Name: "protect-main", Patterns: []string{"git:" + refMain}, Principals: []string{"P0", "P1", "P2"}, Threshold: cs.Threshold}}
	if cs.FileRule {
		rules = append(rules, hist.RuleSpec{Name: "protect-src", Patterns: []string{"file:src/*"}, Principals: []string{"P0"}, Threshold: 1})
	}
	p := stdPolicy("c19", map[string]hist.FileSpec{"targets": {Rules: rules}})
	p.Principals = map[string]hist.PrincipalSpec{
		"P1": {ID: "alice-person", Keys: []string{"P1"}, Identities: map[string]string{"APP": "alice"}},
		"P2": {ID: "bob-person", Keys: []string{"P2"}, Identities: map[string]string{"APP": "bob"}},
	}
	p.Apps = []hist.AppSpec{{Name: "APP", Key: "APPKEY", Trusted: true}}
	if cs.Global {
		p.Global = []hist.GlobalSpec{{Name: "n-people", Kind: "threshold", Patterns: []string{"git:" + refMain}, Threshold: cs.globalThr()}}
	}
	return p
}

func c19Run(cs c19Case, col *evid.Collector) {
	ms := memstore.New()
	w := hist.NewWorld()
	base := map[string]string{"src/a": "1", "doc/b": "1", "z": "1"}
	w.AddCommit(ms, hist.CommitSpec{Name: "m0", Files: base, Signer: "P0"})
	mainTip := "m0"
	if cs.Merge {
		f := copyFiles(base)
		f["z"] = "2"
		w.AddCommit(ms, hist.CommitSpec{Name: "m1", Files: f, Parents: []string{"m0"}, Signer: "P0"})
		mainTip = "m1"
	}
	// feature commits on top of m0
	files := copyFiles(base)
	parent := "m0"
	ftip := ""
	for i, c := range cs.Commits {
		parts := strings.SplitN(c, ":", 2)
		files = copyFiles(files)
		files[parts[1]] = fmt.Sprintf("f%d", i+2)
		name := fmt.Sprintf("f%d", i+1)
		w.AddCommit(ms, hist.CommitSpec{Name: name, Files: files, Parents: []string{parent}, Signer: parts[0]})
		parent, ftip = name, name
	}
	// the base policy lets P0 alone establish main; the policy under test follows
	first := stdPolicy("bootstrap", map[string]hist.FileSpec{"targets": {Rules: []hist.RuleSpec{mainRule([]string{"P0"}, 1)}}})
	spec := c19Policy(cs)
	first.Principals, first.Apps = spec.Principals, spec.Apps
	h := hist.New(ms, w, []*hist.PolicySpec{first, spec})
	must(h.Apply(hist.Event{Kind: "policy", Policy: 0}))
	must(h.Apply(hist.Event{Kind: "push", Ref: refMain, Commit: mainTip, Signer: "P0"}))
	must(h.Apply(hist.Event{Kind: "policy", Policy: 1}))
	must(h.Apply(hist.Event{Kind: "push", Ref: refFeat, Commit: ftip, Signer: "U"}))

	// predicted merge tree
	mergeTree, err := ms.GetMergeTree(w.Commits[mainTip], w.Commits[ftip])
	if err != nil {
		col.Fail("merge tree: " + err.Error())
		return
	}
	from := w.ID(mainTip)
	to := mergeTree.String()
	if len(cs.AuthBy) > 0 || len(cs.Reviewers) > 0 {
		if len(cs.AuthBy) > 0 {
			ids := []string{}
			for _, k := range cs.AuthBy {
				ids = append(ids, keysGet(k))
			}
			must(h.AddAuth(refver.Auth{StoredRef: refMain, StoredFrom: from, StoredTo: to, Ref: refMain, From: from, To: to, Signers: ids}, cs.AuthBy, false))
		}
		if len(cs.Reviewers) > 0 {
			must(h.AddApproval(refver.Approval{StoredApp: "APP", StoredRef: refMain, StoredFrom: from, StoredTo: to, Ref: refMain, From: from, To: to, Approvers: cs.Reviewers, Signers: []string{keysGet("APPKEY")}}, []string{"APPKEY"}))
		}
		must(h.CommitAttestations())
	}
	rsl.ResetCacheForVerif()
	needsSig, perr := policy.NewPolicyVerifier(ms).VerifyMergeable(world_ctx, refMain, refFeat)
	col.Inc("evaluations")
	pred := "not-possible"
	if perr == nil && needsSig {
		pred = "possible-signature-needed"
	} else if perr == nil {
		pred = "possible-no-signature-needed"
	}
	col.Inc("pred_" + strings.ReplaceAll(pred, "-", "_"))

	// who has already been counted for the git rule
	counted := map[string]bool{}
	for _, k := range cs.AuthBy {
		counted[k] = true
	}
	for _, r := range cs.Reviewers {
		counted[map[string]string{"alice": "P1", "bob": "P2"}[r]] = true
	}
	outcomes := []string{}
	for _, rec := range []string{"P0", "P1", "P2", "U", ""} {
		n := h.Fork()
		target := ftip
		if cs.Merge {
			// a merge commit carrying the predicted tree, made by the recorder
			mfiles := copyFiles(files)
			mfiles["z"] = "2"
			name := "M-" + rec
			w.AddCommit(n.MS, hist.CommitSpec{Name: name, Files: mfiles, Parents: []string{"m1", ftip}, Signer: rec})
			if w.Trees[name].String() != to {
				col.Fail("merge commit tree differs from predicted merge tree")
				return
			}
			target = name
		}
		must(n.Apply(hist.Event{Kind: "push", Ref: refMain, Commit: target, Signer: rec}))
		rsl.ResetCacheForVerif()
		_, verr := policy.NewPolicyVerifier(n.MS).VerifyRefFull(world_ctx, refMain)
		col.Inc("evaluations")
		col.Inc("merges_verified")
		ok := verr == nil
		if ok {
			col.Inc("merge_accepts")
		} else {
			col.Inc("merge_rejects")
		}
		authorisedNew := (rec == "P0" || rec == "P1" || rec == "P2") && !counted[rec]
		outcomes = append(outcomes, fmt.Sprintf("%s=%v", orNoneS(rec), ok))
		kind := ""
		switch pred {
		case "possible-no-signature-needed":
			if !ok {
				kind = "predicted-mergeable-by-anyone-but-recorded-merge-fails"
			}
		case "possible-signature-needed":
			if ok && !authorisedNew {
				kind = "predicted-signature-needed-but-merge-by-unauthorised-or-already-counted-recorder-verifies"
			} else if !ok && authorisedNew {
				kind = "predicted-signature-needed-but-merge-by-new-authorised-recorder-fails"
			}
		case "not-possible":
			if ok {
				kind = "predicted-not-possible-but-recorded-merge-verifies"
			}
		}
		if kind != "" {
			ctx := "plain"
			switch {
			case kind == "predicted-not-possible-but-recorded-merge-verifies" && cs.Threshold == 1 && authorisedNew && !cs.Global:
				ctx = "threshold-1-rule-is-never-predicted-as-signature-needed"
			case cs.Merge && cs.FileRule && !ok:
				ctx = "merge-commit-itself-is-subject-to-file-rules"
			case cs.Global:
				// derivative of C11: with any global rule the exhaustive
				// verifier answers first and delegation rules are bypassed
				ctx = "global-rule-present"
			case cs.FileRule:
				ctx = "file-rule"
			case cs.Merge:
				ctx = "merge-commit"
			}
			col.Violation("C19:"+kind+":"+ctx, fmt.Sprintf("%s: VerifyMergeable=%s (err=%v); merge recorded by %q: VerifyRefFull err=%v", cs, pred, perr, rec, verr), cs)
		}
	}
	col.Class("thr%d/file=%v/global=%d/merge=%v/pred=%s/%s", cs.Threshold, cs.FileRule, cs.globalThr(), cs.Merge, pred, strings.Join(outcomes, ","))
}

func orNoneS(s string) string {
	if s == "" {
		return "unsigned"
	}
	return s
}

func copyFiles(m map[string]string) map[string]string {
	out := map[string]string{}
	for k, v := range m {
		out[k] = v
	}
	return out
}

var _ = githash.ZeroHash
var _ *memstore.Store

func TestC19(t *testing.T) {
	col := evid.New("C19")
	defer func() {
		if err := col.Write(); err != nil {
			t.Fatal(err)
		}
	}()
	thorough := evid.Thorough()
	col.Rule("full product of {delegation threshold 1,2,3} x {file rule on src/* or none} x {global threshold 2, 3 or none} x {authorization for (main, tip, predicted merge tree) signed by every subset of {P0,P1,P2}} x {code-review approvers: every subset of {alice(P1), bob(P2)}} x {feature history: one commit by P0/P1/unknown touching src/a or doc/b; thorough: also two-commit histories} x {fast-forward | merge commit carrying the predicted tree}; for each tuple VerifyMergeable's answer is compared with VerifyRefFull after the merge is recorded by each of 5 recorders (P0, P1, P2, unknown key, unsigned). No expected value is written by hand. A class is (policy shape, prediction, vector of per-recorder outcomes)")
	col.Assume("the branch's previous entry is unskipped and no policy or attestation entry intervenes (as quantified); merges are file-disjoint (memstore's GetMergeTree); the recorder of a merge commit also signs that commit")
	if rf := evid.ReplayFile(); rf != "" {
		var cs c19Case
		if err := evid.LoadReplay(rf, &cs); err != nil {
			col.Fail(err.Error())
			return
		}
		c19Run(cs, col)
		return
	}
	subsets := func(items []string) [][]string {
		out := [][]string{}
		for m := 0; m < 1<<len(items); m++ {
			s := []string{}
			for i, it := range items {
				if m&(1<<i) != 0 {
					s = append(s, it)
				}
			}
			out = append(out, s)
		}
		return out
	}
	features := [][]string{}
	for _, s := range []string{"P0", "P1", "U"} {
		for _, p := range []string{"src/a", "doc/b"} {
			features = append(features, []string{s + ":" + p})
		}
	}
	if thorough {
		for _, a := range []string{"P0:src/a", "U:src/a", "P1:doc/b"} {
			for _, b := range []string{"P0:doc/b", "U:src/a", "P0:src/a"} {
				features = append(features, []string{a, b})
			}
		}
	}
	item := 0
	for _, thr := range []int{1, 2, 3} {
		for _, fr := range []bool{false, true} {
			for _, gl := range []int{0, 2, 3} {
				for _, au := range subsets([]string{"P0", "P1", "P2"}) {
					for _, rv := range subsets([]string{"alice", "bob"}) {
						for _, f := range features {
							for _, merge := range []bool{false, true} {
								item++
								if !evid.Mine(item) {
									continue
								}
								if col.Expired() {
									return
								}
								c19Run(c19Case{Threshold: thr, FileRule: fr, Global: gl > 0, GlobalThr: gl, AuthBy: au, Reviewers: rv, Commits: f, Merge: merge}, col)
							}
						}
					}
				}
			}
		}
	}
	col.Sample(map[string]any{"example": c19Case{Threshold: 2, AuthBy: []string{"P1"}, Commits: []string{"P0:src/a"}}.String()})
}
