package checks

import (
	"fmt"
	"sort"
	"strings"
	"testing"

	"github.com/gittuf/gittuf/internal/cache"
	"github.com/gittuf/gittuf/internal/policy"
	"github.com/gittuf/gittuf/pkg/githash"
	"github.com/gittuf/gittuf/pkg/rsl"
	"github.com/gittuf/gittuf/verif/evid"
	"github.com/gittuf/gittuf/verif/hist"
	"github.com/gittuf/gittuf/verif/memstore"
	"github.com/gittuf/gittuf/verif/refver"
)

// C08 — purely differential: for every history and every cache configuration
// (absent / populated at every earlier log length / populated then advanced by
// an earlier verification) every verification mode must give the verdict and
// tip it gives with no cache on the same log; repetition and verification of
// other references first must not matter; from-entry == full after a
// successful verification; no reference other than the cache ref changes.

type c08Outcome struct {
	ok  bool
	ec  string
	tip string
}

func (o c08Outcome) String() string {
	if o.ok {
		return "accept@" + o.tip[:8]
	}
	return "reject(" + o.ec + ")"
}

func c08Run(ms *memstore.Store, mode, ref string, from githash.Hash) c08Outcome {
	v := policy.NewPolicyVerifier(ms)
	var tip githash.Hash
	var err error
	switch mode {
	case "full":
		tip, err = v.VerifyRefFull(world_ctx, ref)
	case "latest":
		tip, err = v.VerifyRef(world_ctx, ref)
	case "from-entry":
		tip, err = v.VerifyRefFromEntry(world_ctx, ref, from)
	}
	if err != nil {
		return c08Outcome{ok: false, ec: e1ErrClass(err)}
	}
	return c08Outcome{ok: true, tip: tip.String()}
}

func c08Same(a, b c08Outcome) bool {
	// verdict and tip; the error text may differ, the class of outcome may not
	return a.ok == b.ok && a.tip == b.tip
}

func c08RefsExcept(ms *memstore.Store) string {
	names := []string{}
	for k := range ms.Refs {
		if k != cache.Ref {
			names = append(names, k+"="+ms.Refs[k])
		}
	}
	sort.Strings(names)
	return strings.Join(names, ";")
}

func c08Judge(fullB, twice bool) func(sc *e1Scenario, h *hist.Hist, cps map[string][]int, col *evid.Collector) map[string][]int {
	return func(sc *e1Scenario, h *hist.Hist, cps map[string][]int, col *evid.Collector) map[string][]int {
		n := len(h.A.Entries)
		type mr struct{ mode, ref string }
		pairs := []mr{}
		for _, ref := range sc.Refs {
			if h.A.LastIndex(ref) >= 0 {
				pairs = append(pairs, mr{"full", ref}, mr{"latest", ref})
			}
		}
		if len(pairs) == 0 {
			return cps
		}
		refsBefore := c08RefsExcept(h.MS)
		// indexComplete: does the persistent cache of store f index every
		// policy and attestation entry of the log?
		indexComplete := func(f *memstore.Store) bool {
			pc, err := cache.LoadPersistentCache(f)
			if err != nil {
				return true
			}
			have := map[uint64]bool{}
			for _, e := range pc.PolicyEntries {
				have[e.EntryNumber] = true
			}
			for _, e := range pc.AttestationEntries {
				have[e.EntryNumber] = true
			}
			for i, e := range h.A.Entries {
				if (e.Kind == refver.PolicyEntry || e.Kind == refver.AttestEntry) && !have[uint64(i+1)] {
					return false
				}
			}
			return true
		}
		// Causes, observable in the history, for a verification that starts
		// at entry k (a from-entry checkpoint or the cache's last-verified
		// entry) to differ from verification of the whole log:
		// laterRevocation: a skip annotation recorded after k names an entry
		// for the reference at or before k (what was verified up to k has
		// been revoked since); toleratedFix: k was accepted as the repair of
		// a revoked violation, not on its own signature.
		laterRevocation := func(ref string, k int) bool {
			for a := k + 1; a < n; a++ {
				e := h.A.Entries[a]
				if e.Kind != refver.Annotation || !e.Skip {
					continue
				}
				for _, t := range e.Names {
					if t <= k && h.A.Entries[t].Ref == ref {
						return true
					}
				}
			}
			return false
		}
		toleratedFix := func(k int) bool {
			if k < 0 || k >= n || h.A.Entries[k].Kind != refver.Push {
				return false
			}
			pol := h.A.PolicyInForceAt(k)
			if pol == nil {
				return false
			}
			ok, _ := h.A.Authorised(k, pol, h.A.AttInForceAt(k))
			return !ok
		}
		lastVerifiedIndex := func(f *memstore.Store, ref string) int {
			pc, err := cache.LoadPersistentCache(f)
			if err != nil {
				return -1
			}
			num, _ := pc.GetLastVerifiedEntryForRef(ref)
			return int(num) - 1
		}
		startCause := func(ref string, k int) string {
			switch {
			case k < 0:
				return ""
			case toleratedFix(k):
				return "starts-at-a-tolerated-fix-entry-and-judges-it-as-an-ordinary-entry"
			case laterRevocation(ref, k):
				return "entries-at-or-before-the-starting-entry-were-revoked-after-it-was-verified"
			}
			return ""
		}
		report := func(kind, cfg string, p mr, got, want c08Outcome) {
			dir := "reject-instead-of-accept"
			if got.ok && !want.ok {
				dir = "accept-instead-of-reject"
			} else if got.ok && want.ok {
				dir = "different-tip"
			}
			col.Violation(fmt.Sprintf("C08:%s:%s:%s", kind, p.mode, dir),
				fmt.Sprintf("[%s] %s(%s) under %s = %s, without cache = %s", h.Describe(), p.mode, p.ref, cfg, got, want),
				e1Replay{Scenario: sc.Name, Events: h.Events, Mode: p.mode, Ref: p.ref})
		}
		// baseline: no cache, first time
		base := map[mr]c08Outcome{}
		for _, p := range pairs {
			rsl.ResetCacheForVerif()
			s := h.MS.Snapshot()
			delete(s.Refs, cache.Ref)
			base[p] = c08Run(s, p.mode, p.ref, nil)
			col.Inc("evaluations")
			col.Inc("baseline_verifications")
			if base[p].ok {
				col.Inc("baseline_accepts")
			} else {
				col.Inc("baseline_rejects")
			}
			if c08RefsExcept(s) != refsBefore || s.Refs[cache.Ref] != "" {
				col.Violation("C08:verification-changed-references:no-cache", fmt.Sprintf("[%s] %s(%s) changed refs", h.Describe(), p.mode, p.ref), e1Replay{Scenario: sc.Name, Events: h.Events, Mode: p.mode, Ref: p.ref})
			}
		}
		// repetition and order on one store without cache
		s := h.MS.Snapshot()
		for round := 0; round < 2; round++ {
			for _, p := range pairs {
				got := c08Run(s, p.mode, p.ref, nil)
				col.Inc("evaluations")
				if !c08Same(got, base[p]) {
					report("verdict-differs-on-repetition", "repeated/after-other-refs", p, got, base[p])
				}
			}
		}
		// from-entry == full after a successful verification
		out := map[string][]int{}
		for k, v := range cps {
			out[k] = v
		}
		for _, ref := range sc.Refs {
			last := h.A.LastIndex(ref)
			if last < 0 {
				continue
			}
			for _, k := range cps[ref] {
				got := c08Run(h.MS.Snapshot(), "from-entry", ref, h.IDs[k])
				col.Inc("evaluations")
				col.Inc("from_entry_checks")
				if !c08Same(got, base[mr{"full", ref}]) {
					if c := startCause(ref, k); c != "" {
						col.Violation("C08:from-entry-differs-from-full:"+c,
							fmt.Sprintf("[%s] from-entry(%s) from checkpoint #%d = %s, full = %s", h.Describe(), ref, k, got, base[mr{"full", ref}]),
							e1Replay{Scenario: sc.Name, Events: h.Events, Mode: "from-entry", Ref: ref})
					} else {
						report("from-entry-differs-from-full", fmt.Sprintf("checkpoint #%d", k), mr{"from-entry", ref}, got, base[mr{"full", ref}])
					}
				}
			}
			if base[mr{"full", ref}].ok && h.A.Entries[last].Kind == refver.Push {
				found := false
				for _, k := range out[ref] {
					found = found || k == last
				}
				if !found {
					out[ref] = append(append([]int(nil), out[ref]...), last)
				}
			}
		}
		// cache configurations
		for k := 1; k <= n; k++ {
			ck := h.Snaps[k-1].Snapshot()
			delete(ck.Refs, cache.Ref)
			if err := cache.PopulatePersistentCache(ck); err != nil {
				col.Fail("populate: " + err.Error())
				return out
			}
			cref := ck.Refs[cache.Ref]
			if cref == "" {
				continue // nothing to cache yet
			}
			col.Inc("cache_configs")
			for _, p := range pairs {
				f := h.MS.Snapshot()
				f.Refs[cache.Ref] = cref
				rsl.ResetCacheForVerif()
				complete := indexComplete(f)
				got := c08Run(f, p.mode, p.ref, nil)
				col.Inc("evaluations")
				col.Class("%s/populated-at-%d-of-%d/%s/%v-vs-%v", sc.Name[:3], k, n, p.mode, got.ok, base[p].ok)
				if !c08Same(got, base[p]) {
					if !complete {
						col.Violation("C08:verdict-differs-with-cache:index-missing-policy-or-attestation-entries-of-the-log",
							fmt.Sprintf("[%s] %s(%s) with a cache populated at log length %d of %d = %s, without cache = %s", h.Describe(), p.mode, p.ref, k, n, got, base[p]),
							e1Replay{Scenario: sc.Name, Events: h.Events, Mode: p.mode, Ref: p.ref})
					} else {
						report("verdict-differs-with-cache:index-complete", fmt.Sprintf("cache populated at log length %d of %d", k, n), p, got, base[p])
					}
				}
				if c08RefsExcept(f) != refsBefore {
					col.Violation("C08:verification-changed-references:with-cache", fmt.Sprintf("[%s] %s(%s) changed refs other than the cache ref", h.Describe(), p.mode, p.ref), e1Replay{Scenario: sc.Name, Events: h.Events, Mode: p.mode, Ref: p.ref})
				}
			}
			if !fullB {
				continue
			}
			// populated at k, then advanced by one verification at length j
			for j := k; j <= n; j++ {
				for _, adv := range pairs {
					a := h.Snaps[j-1].Snapshot()
					a.Refs[cache.Ref] = cref
					if (&refver.History{Entries: h.A.Entries[:j], Obj: h.A.Obj}).LastIndex(adv.ref) < 0 {
						continue
					}
					c08Run(a, adv.mode, adv.ref, nil)
					col.Inc("evaluations")
					cref2 := a.Refs[cache.Ref]
					if twice {
						// ... and advanced again by every verification at every
						// later length j2 >= j; judged below as cref3
						for j2 := j; j2 <= n; j2++ {
							for _, adv2 := range pairs {
								if (&refver.History{Entries: h.A.Entries[:j2], Obj: h.A.Obj}).LastIndex(adv2.ref) < 0 {
									continue
								}
								a2 := h.Snaps[j2-1].Snapshot()
								a2.Refs[cache.Ref] = cref2
								rsl.ResetCacheForVerif()
								c08Run(a2, adv2.mode, adv2.ref, nil)
								col.Inc("evaluations")
								cref3 := a2.Refs[cache.Ref]
								for _, p := range pairs {
									f := h.MS.Snapshot()
									f.Refs[cache.Ref] = cref3
									rsl.ResetCacheForVerif()
									complete := indexComplete(f) && indexComplete(a) && indexComplete(a2)
									lvi := lastVerifiedIndex(f, p.ref)
									got := c08Run(f, p.mode, p.ref, nil)
									col.Inc("evaluations")
									col.Inc("twice_advanced_cache_verifications")
									if c08Same(got, base[p]) {
										continue
									}
									cfg := fmt.Sprintf("cache populated at %d, advanced by %s(%s) at %d and by %s(%s) at %d, log length %d", k, adv.mode, adv.ref, j, adv2.mode, adv2.ref, j2, n)
									if c := startCause(p.ref, lvi); p.mode == "full" && c != "" {
										col.Violation("C08:full-verification-from-the-cached-last-verified-entry-differs:"+c,
											fmt.Sprintf("[%s] full(%s) with a %s (last verified entry #%d) = %s, without cache = %s", h.Describe(), p.ref, cfg, lvi, got, base[p]),
											e1Replay{Scenario: sc.Name, Events: h.Events, Mode: p.mode, Ref: p.ref})
									} else if !complete {
										col.Violation("C08:verdict-differs-with-cache:index-missing-policy-or-attestation-entries-of-the-log",
											fmt.Sprintf("[%s] %s(%s) with a %s = %s, without cache = %s", h.Describe(), p.mode, p.ref, cfg, got, base[p]),
											e1Replay{Scenario: sc.Name, Events: h.Events, Mode: p.mode, Ref: p.ref})
									} else if (adv.mode == "latest" || adv2.mode == "latest") && p.mode == "full" && got.ok && !base[p].ok {
										col.Violation("C08:latest-only-verification-marks-its-entry-last-verified:full-verification-then-skips-earlier-entries",
											fmt.Sprintf("[%s] full(%s) with a %s = %s, without cache = %s", h.Describe(), p.ref, cfg, got, base[p]),
											e1Replay{Scenario: sc.Name, Events: h.Events, Mode: p.mode, Ref: p.ref})
									} else if c := startCause(p.ref, lvi); p.mode == "full" && c != "" {
										col.Violation("C08:full-verification-from-the-cached-last-verified-entry-differs:"+c,
											fmt.Sprintf("[%s] full(%s) with a %s (last verified entry #%d) = %s, without cache = %s", h.Describe(), p.ref, cfg, lvi, got, base[p]),
											e1Replay{Scenario: sc.Name, Events: h.Events, Mode: p.mode, Ref: p.ref})
									} else {
										report("verdict-differs-with-cache:cache-advanced-twice:index-complete", cfg, p, got, base[p])
									}
								}
							}
						}
						continue
					}
					for _, p := range pairs {
						f := h.MS.Snapshot()
						f.Refs[cache.Ref] = cref2
						rsl.ResetCacheForVerif()
						complete := indexComplete(f) && indexComplete(a)
						lvi := lastVerifiedIndex(f, p.ref)
						got := c08Run(f, p.mode, p.ref, nil)
						col.Inc("evaluations")
						col.Inc("advanced_cache_verifications")
						if c := startCause(p.ref, lvi); !c08Same(got, base[p]) && p.mode == "full" && c != "" {
							col.Violation("C08:full-verification-from-the-cached-last-verified-entry-differs:"+c,
								fmt.Sprintf("[%s] full(%s) with a cache populated at %d, advanced by %s(%s) at %d (last verified entry #%d), log length %d = %s, without cache = %s", h.Describe(), p.ref, k, adv.mode, adv.ref, j, lvi, n, got, base[p]),
								e1Replay{Scenario: sc.Name, Events: h.Events, Mode: p.mode, Ref: p.ref})
						} else if !c08Same(got, base[p]) && !complete {
							col.Violation("C08:verdict-differs-with-cache:index-missing-policy-or-attestation-entries-of-the-log",
								fmt.Sprintf("[%s] %s(%s) with a cache populated at %d, advanced by %s(%s) at %d, log length %d = %s, without cache = %s", h.Describe(), p.mode, p.ref, k, adv.mode, adv.ref, j, n, got, base[p]),
								e1Replay{Scenario: sc.Name, Events: h.Events, Mode: p.mode, Ref: p.ref})
						} else if !c08Same(got, base[p]) && adv.mode == "latest" && p.mode == "full" && got.ok && !base[p].ok {
							col.Violation("C08:latest-only-verification-marks-its-entry-last-verified:full-verification-then-skips-earlier-entries",
								fmt.Sprintf("[%s] full(%s) after latest-only verification of %s at log length %d advanced the cache = %s, without cache = %s", h.Describe(), p.ref, adv.ref, j, got, base[p]),
								e1Replay{Scenario: sc.Name, Events: h.Events, Mode: p.mode, Ref: p.ref})
						} else if c := startCause(p.ref, lvi); !c08Same(got, base[p]) && p.mode == "full" && c != "" {
							col.Violation("C08:full-verification-from-the-cached-last-verified-entry-differs:"+c,
								fmt.Sprintf("[%s] full(%s) with a cache populated at %d, advanced by %s(%s) at %d (last verified entry #%d), log length %d = %s, without cache = %s", h.Describe(), p.ref, k, adv.mode, adv.ref, j, lvi, n, got, base[p]),
								e1Replay{Scenario: sc.Name, Events: h.Events, Mode: p.mode, Ref: p.ref})
						} else if !c08Same(got, base[p]) {
							report("verdict-differs-with-cache:cache-advanced-by-earlier-verification:index-complete", fmt.Sprintf("cache populated at %d, advanced by %s(%s) at %d, log length %d", k, adv.mode, adv.ref, j, n), p, got, base[p])
						}
					}
				}
			}
		}
		return out
	}
}

const refTag = "refs/tags/v1"

func c08World(ms *memstore.Store) *hist.World {
	w := c01World(ms)
	w.AddTag(ms, "tagA", "v1", "c1", "P0")
	return w
}

func c08Policies() []*hist.PolicySpec {
	tagRule := hist.RuleSpec{Name: "protect-tags", Patterns: []string{"git:refs/tags/*"}, Principals: []string{"P0", "P1"}, Threshold: 2}
	return []*hist.PolicySpec{
		stdPolicy("P0P1/1", map[string]hist.FileSpec{"targets": {Rules: []hist.RuleSpec{mainRule([]string{"P0", "P1"}, 1), tagRule}}}),
		stdPolicy("P1/1", map[string]hist.FileSpec{"targets": {Rules: []hist.RuleSpec{mainRule([]string{"P1"}, 1), tagRule}}}),
		stdPolicy("P0P1P2/2", map[string]hist.FileSpec{"targets": {Rules: []hist.RuleSpec{mainRule([]string{"P0", "P1", "P2"}, 2), tagRule}}}),
	}
}

func c08Menu(h *hist.Hist, depth int) []hist.Event {
	evs := []hist.Event{}
	for _, c := range []string{"c1", "c2"} {
		for _, s := range []string{"P0", "P1", "U"} {
			evs = append(evs, hist.Event{Kind: "push", Ref: refMain, Commit: c, Signer: s})
		}
	}
	evs = append(evs,
		hist.Event{Kind: "push", Ref: refFeat, Commit: "c1", Signer: "U"},
		hist.Event{Kind: "push", Ref: refTag, Commit: "tagA", Signer: "P0"},
		hist.Event{Kind: "push", Ref: refTag, Commit: "tagA", Signer: "P1"},
		hist.Event{Kind: "approve", Ref: refTag, Commit: "tagA", Signers: []string{"P1"}},
		hist.Event{Kind: "approve", Ref: refMain, Commit: "c1", Signers: []string{"P1", "P2"}},
		hist.Event{Kind: "policy", Policy: 0}, hist.Event{Kind: "policy", Policy: 1}, hist.Event{Kind: "policy", Policy: 2},
	)
	for i, e := range h.A.Entries {
		if e.Kind == refver.Push && i > 0 {
			evs = append(evs, hist.Event{Kind: "annotate", Names: []int{i}, Skip: true})
		}
	}
	return evs
}

func c08Scenarios(thorough bool) []*e1Scenario {
	dFull, dA := 2, 3
	if thorough {
		dFull, dA = 3, 4
	}
	prefix := []hist.Event{{Kind: "policy", Policy: 0}, {Kind: "push", Ref: refMain, Commit: "c0", Signer: "P0"}}
	dTwice := 2
	if thorough {
		dTwice = 3
	}
	// a revoked violation is open when exploration starts: the recovery
	// workflow writes the last-verified marker on its own path, and a
	// verification that ends in an error still persists what it marked
	incidentPrefix := []hist.Event{{Kind: "policy", Policy: 0}, {Kind: "push", Ref: refMain, Commit: "c0", Signer: "P0"},
		{Kind: "push", Ref: refMain, Commit: "c1", Signer: "U"}, {Kind: "annotate", Names: []int{2}, Skip: true}}
	incidentMenu := func(h *hist.Hist, depth int) []hist.Event {
		evs := []hist.Event{}
		for _, c := range []string{"c2", "r"} {
			for _, s := range []string{"P0", "U"} {
				evs = append(evs, hist.Event{Kind: "push", Ref: refMain, Commit: c, Signer: s})
			}
		}
		evs = append(evs, hist.Event{Kind: "push", Ref: refFeat, Commit: "c1", Signer: "U"}, hist.Event{Kind: "policy", Policy: 1})
		for i, e := range h.A.Entries {
			if e.Kind == refver.Push && i > 2 {
				evs = append(evs, hist.Event{Kind: "annotate", Names: []int{i}, Skip: true})
			}
		}
		return evs
	}
	dInc := 3
	if thorough {
		dInc = 4
	}
	// the cache is brought up to date with the log when it is loaded: a small
	// alphabet explored one level deeper, so that several attestation and
	// policy entries lie between the point the cache was written at and the
	// entry that is verified (the catch-up walks them newest first)
	catchUpMenu := func(h *hist.Hist, depth int) []hist.Event {
		return []hist.Event{
			{Kind: "policy", Policy: 1},
			{Kind: "approve", Ref: refTag, Commit: "tagA", Signers: []string{"P1"}},
			{Kind: "approve", Ref: refMain, Commit: "c1", Signers: []string{"P1", "P2"}},
			{Kind: "push", Ref: refMain, Commit: "c1", Signer: "P0"},
			{Kind: "push", Ref: refMain, Commit: "c1", Signer: "P1"},
		}
	}
	dCatch := 4
	if thorough {
		dCatch = 5
	}
	return []*e1Scenario{
		{Name: "C08/cache-catch-up", World: c08World, Policies: c08Policies(), Prefix: prefix, Menu: catchUpMenu, Depth: dCatch, Refs: []string{refMain}, Judge: c08Judge(false, false)},
		{Name: "C08/open-incident", World: c08World, Policies: c08Policies(), Prefix: incidentPrefix, Menu: incidentMenu, Depth: dInc, Refs: []string{refMain, refFeat}, Judge: c08Judge(true, false)},
		{Name: "C08/twice-advanced-caches", World: c08World, Policies: c08Policies(), Prefix: prefix, Menu: c08Menu, Depth: dTwice, Refs: []string{refMain, refFeat, refTag}, Judge: c08Judge(true, true)},
		{Name: "C08/advanced-caches", World: c08World, Policies: c08Policies(), Prefix: prefix, Menu: c08Menu, Depth: dFull, Refs: []string{refMain, refFeat, refTag}, Judge: c08Judge(true, false)},
		{Name: "C08/populated-caches", World: c08World, Policies: c08Policies(), Prefix: prefix, Menu: c08Menu, Depth: dA, Refs: []string{refMain, refFeat, refTag}, Judge: c08Judge(false, false)},
	}
}

func TestC08(t *testing.T) {
	col := evid.New("C08")
	defer func() {
		if err := col.Write(); err != nil {
			t.Fatal(err)
		}
	}()
	scs := c08Scenarios(evid.Thorough())
	col.Bound("events_after_prefix_populated", scs[4].Depth)
	col.Bound("events_after_prefix_advanced", scs[3].Depth)
	col.Bound("events_after_prefix_advanced_twice", scs[2].Depth)
	col.Bound("events_after_open_incident_prefix", scs[1].Depth)
	col.Bound("events_after_prefix_catch_up", scs[0].Depth)
	col.Rule("every history of <= %d events (cache advanced by an earlier verification: <= %d) after [policy; push] over {pushes to main by authorised / later de-authorised / unknown keys, push to an unprotected ref, two recordings of a tag under a threshold-2 rule, approvals, three policy states (incl. de-authorisation and threshold raise), skip annotations}; principals share no keys. For every history: cache-less first-time verdict (full, latest-only) for every reference = baseline; then the same under (a) repetition / other references first on one store, (b) a cache populated at EVERY earlier log length k and carried forward untouched, (c) that cache advanced by every single earlier verification (mode x ref x length j>=k), (c') histories of <= %d events: that cache advanced by every ordered PAIR of earlier verifications (at lengths k <= j <= j2), (d) VerifyRefFromEntry from every entry reached by an earlier successful full verification vs full; and the ref listing before/after. No expected values are written: every comparison is between two runs of the real code. (e) the same as (b)+(c) for every history of <= %d events after a prefix that leaves a revoked violation open (repairs by authorised/unknown keys, further violations, their revocations, a policy change), so that verifications ending in an error and the recovery workflow's own cache writes are among the advancing verifications. (f) (b) again one level deeper (<= %d events) over the five events {de-authorising policy, two different approvals (attestation entries), push by the de-authorised / still authorised key}, so that several policy and attestation entries lie between the cache's scanned-up-to point and the verified entry. A class is (configuration, mode, with-cache verdict, baseline verdict)", scs[4].Depth, scs[3].Depth, scs[2].Depth, scs[1].Depth, scs[0].Depth)
	col.Assume("principals share no keys (as quantified); the process-wide rsl entry cache is reset before every compared run")
	for _, sc := range scs {
		sc.keepSnaps = true
	}
	if e1Replayer(scs, col) {
		return
	}
	e1ExploreTiers(c08Scenarios, func(scs []*e1Scenario) {
		for _, sc := range scs {
			sc.keepSnaps = true
		}
	}, col)
}
