package checks

import (
	"fmt"
	"reflect"
	"strings"
	"testing"

	"github.com/gittuf/gittuf/pkg/githash"
	"github.com/gittuf/gittuf/pkg/rsl"
	"github.com/gittuf/gittuf/verif/evid"
	"github.com/gittuf/gittuf/verif/keys"
	"github.com/gittuf/gittuf/verif/memstore"
)

// C14 — bounded-exhaustive enumeration of (a) entries written through the real
// recording paths and read back, (b) every text that is a sequence of <= k
// lines of a 28-line alphabet, judged by parse/print/parse identity and an
// independent strict tokenizer.

const (
	c14H1 = "1111111111111111111111111111111111111111"
	c14H2 = "2222222222222222222222222222222222222222"
)

var c14Alphabet = []string{
	"RSL Reference Entry",
	"RSL Annotation Entry",
	"RSL Propagation Entry",
	"RSL Reference Entry ",
	"rsl reference entry",
	"",
	"ref: refs/heads/main",
	"ref: refs/heads/other",
	" ref : refs/heads/main ",
	"targetID: " + c14H1,
	"targetID: " + c14H2,
	"targetID: zz",
	"number: 1",
	"number: 2",
	"number: x",
	"number: 1\r",
	"entryID: " + c14H1,
	"entryID: " + c14H2,
	"skip: true",
	"skip: false",
	"skip: maybe",
	"upstreamRepository: https://h/x:y",
	"upstreamEntryID: " + c14H1,
	"unknown: v",
	"nocolon",
	"-----BEGIN MESSAGE-----",
	"bXNn",
	"-----END MESSAGE-----",
}

// c14Strict is the independent tokenizer: it lists the occurrences of known
// keys before the message block and says whether the documented layout is
// violated in a way the parser MUST reject (a repeated single-valued key, keys
// out of documented order, a missing mandatory key). It never says a text
// must be accepted.
func c14Strict(text string) (kind string, mustReject bool, why string) {
	lines := strings.Split(text, "\n")
	var order []string
	var mandatory []string
	switch lines[0] {
	case "RSL Reference Entry":
		kind, order, mandatory = "reference", []string{"ref", "targetID", "number"}, []string{"ref", "targetID"}
	case "RSL Annotation Entry":
		kind, order, mandatory = "annotation", []string{"entryID", "skip", "number"}, []string{"entryID", "skip"}
	case "RSL Propagation Entry":
		kind, order, mandatory = "propagation", []string{"ref", "targetID", "upstreamRepository", "upstreamEntryID", "number"}, []string{"ref", "targetID", "upstreamRepository", "upstreamEntryID"}
	default:
		return "", false, ""
	}
	idx := map[string]int{}
	for i, k := range order {
		idx[k] = i
	}
	seen := map[string]int{}
	last := -1
	for _, line := range lines[1:] {
		l := strings.TrimSpace(line)
		if l == "-----BEGIN MESSAGE-----" && kind == "annotation" {
			break
		}
		c := strings.IndexByte(l, ':')
		if c < 0 {
			continue
		}
		k := strings.TrimSpace(l[:c])
		i, known := idx[k]
		if !known {
			continue
		}
		seen[k]++
		if seen[k] > 1 && !(kind == "annotation" && k == "entryID") {
			return kind, true, "key " + k + " repeated"
		}
		if i < last {
			return kind, true, "key " + k + " out of order"
		}
		last = i
	}
	for _, k := range mandatory {
		if seen[k] == 0 {
			return kind, true, "mandatory key " + k + " missing"
		}
	}
	return kind, false, ""
}

func c14CheckText(text string, id githash.Hash, col *evid.Collector) (sig, what string) {
	defer func() {
		if r := recover(); r != nil {
			sig, what = "C14:parser-panic", fmt.Sprintf("ParseEntryText panicked on %q: %v", text, r)
		}
	}()
	e, err := rsl.ParseEntryText(id, text)
	kind, mustReject, why := c14Strict(text)
	if err != nil {
		if e != nil {
			return "C14:entry-returned-with-error", fmt.Sprintf("%q: non-nil entry together with error %v", text, err)
		}
		if col != nil {
			col.Inc("rejected")
		}
		return "", ""
	}
	if col != nil {
		col.Inc("accepted")
		col.Class("accept/%s/%T", kind, e)
	}
	if mustReject {
		return "C14:accepted-despite-" + strings.ReplaceAll(strings.SplitN(why, " ", 3)[0]+"-"+lastWord(why), " ", "-") + ":" + kind, fmt.Sprintf("%q accepted although %s", text, why)
	}
	canon, err := rsl.CanonicalTextForVerif(e)
	if err != nil {
		return "C14:canonical-text-error:" + kind, fmt.Sprintf("%q: accepted but cannot be re-serialised: %v", text, err)
	}
	e2, err := rsl.ParseEntryText(id, canon)
	if err != nil {
		return "C14:canonical-text-rejected:" + kind, fmt.Sprintf("%q parses to an entry whose canonical text %q is rejected: %v", text, canon, err)
	}
	if !reflect.DeepEqual(e, e2) {
		return "C14:parse-not-idempotent:" + kind, fmt.Sprintf("%q parses to %+v but its canonical text %q parses to %+v", text, e, canon, e2)
	}
	return "", ""
}

func lastWord(s string) string {
	f := strings.Fields(s)
	return f[len(f)-1]
}

type c14Replay struct {
	Text string `json:"text"`
}

func TestC14(t *testing.T) {
	col := evid.New("C14")
	defer func() {
		if err := col.Write(); err != nil {
			t.Fatal(err)
		}
	}()
	id, _ := githash.NewHash("3333333333333333333333333333333333333333")
	if rf := evid.ReplayFile(); rf != "" {
		var r c14Replay
		if err := evid.LoadReplay(rf, &r); err != nil {
			col.Fail(err.Error())
			return
		}
		col.Inc("evaluations")
		if sig, what := c14CheckText(r.Text, id, col); sig != "" {
			col.Violation(sig, what, r)
		}
		return
	}
	k := 4
	bodyDepth := map[string]int{"reference": 5, "annotation": 6, "propagation": 6}
	if evid.Thorough() {
		k = 5
		bodyDepth = map[string]int{"reference": 6, "annotation": 7, "propagation": 7}
	}
	col.Bound("max_lines_general", k)
	col.Bound("max_body_lines_per_kind", bodyDepth)
	col.Rule("(read-1) every text that is a sequence of 1..%d lines drawn from a %d-line cross-kind alphabet; (read-2) per entry kind: exact header, blank-line variant, then every body of up to N lines (reference %d, annotation %d, propagation %d) over a kind-specific alphabet of 14-18 lines (each key with valid, second-valid, invalid and blank-padded values, CR, foreign and unknown keys, colon-less line, blank, PEM markers, base64 line). Each text is judged by: no panic; accepted => parse(canonical(parse(t))) == parse(t) field-wise; independent strict tokenizer says repeated/out-of-order/missing field => must have been rejected. (write) every entry of a product domain of refs x ids x skip x messages x upstream locations recorded through the real Commit/CommitUsingSpecificKey/CommitWithoutNumber paths into memstore and read back with rsl.GetEntry, fields compared. A class is (accept, entry kind) or a write-side (kind, message-class)", k, len(c14Alphabet), bodyDepth["reference"], bodyDepth["annotation"], bodyDepth["propagation"])
	col.Assume("unstructured fuzz input and texts longer than the line bounds are not covered (sampling is not claimed)")

	// ---- write -> read ----
	if evid.Mine(0) {
		c14WriteRead(col)
	}

	count := 0
	check := func(text string) bool {
		col.Inc("evaluations")
		count++
		if count%4096 == 0 && col.Expired() {
			return false
		}
		if sig, what := c14CheckText(text, id, col); sig != "" {
			col.Violation(sig, what, c14Replay{Text: text})
		}
		return true
	}

	// ---- read-1: all line sequences over the cross-kind alphabet ----
	n := len(c14Alphabet)
	var rec func(prefix []int, depth int)
	buf := make([]string, 0, 16)
	rec = func(prefix []int, depth int) {
		if len(prefix) > 0 {
			buf = buf[:0]
			for _, i := range prefix {
				buf = append(buf, c14Alphabet[i])
			}
			if !check(strings.Join(buf, "\n")) {
				return
			}
			// pruning with a correctness argument: a text whose first line is
			// not one of the three exact headers is rejected by the header
			// test whatever follows, so only its 1-line form is explored.
			if prefix[0] > 2 {
				return
			}
		}
		if depth == k {
			return
		}
		for i := 0; i < n; i++ {
			if len(prefix) == 1 {
				// shard on the second line
				if !evid.Mine(i) {
					continue
				}
			}
			rec(append(prefix, i), depth+1)
		}
	}
	rec(nil, 0)

	// ---- read-1b: number spellings ----
	// every spelling of the number field in an otherwise canonical body of
	// each kind: an accepted text must re-parse from its canonical form to the
	// same entry; and the canonical text of an entry with a large number
	// (2^63, 2^64-1: valid values of the unsigned field) must parse back to it.
	if evid.Mine(0) {
		numberBodies := map[string]string{
			"RSL Reference Entry":   "ref: refs/heads/main\ntargetID: " + c14H1,
			"RSL Annotation Entry":  "entryID: " + c14H1 + "\nskip: true",
			"RSL Propagation Entry": "ref: refs/heads/main\ntargetID: " + c14H1 + "\nupstreamRepository: https://h/x\nupstreamEntryID: " + c14H2,
		}
		spellings := []string{"0", "1", "01", "+1", "-1", "-0", " 1", "1 ", "9223372036854775807", "9223372036854775808", "-9223372036854775808", "18446744073709551615", "18446744073709551616", "1e3", "0x1", "1.0", "１", ""}
		for header, body := range numberBodies {
			for _, sp := range spellings {
				text := header + "\n\n" + body + "\nnumber: " + sp
				col.Inc("evaluations")
				col.Inc("number_spellings")
				if sig, what := c14CheckText(text, id, col); sig != "" {
					col.Violation(sig+":number-spelling", what, c14Replay{Text: text})
				}
			}
			for _, n := range []uint64{1 << 63, 1<<64 - 1, 1<<63 - 1} {
				base, err := rsl.ParseEntryText(id, header+"\n\n"+body+"\nnumber: 7")
				if err != nil {
					col.Fail("number sweep: canonical body rejected: " + err.Error())
					return
				}
				switch e := base.(type) {
				case *rsl.ReferenceEntry:
					e.Number = n
				case *rsl.AnnotationEntry:
					e.Number = n
				case *rsl.PropagationEntry:
					e.Number = n
				}
				canon, err := rsl.CanonicalTextForVerif(base)
				col.Inc("evaluations")
				col.Inc("number_roundtrips")
				if err != nil {
					col.Violation("C14:canonical-text-error:large-number", fmt.Sprintf("entry with number %d cannot be serialised: %v", n, err), c14Replay{Text: header})
					continue
				}
				back, err := rsl.ParseEntryText(id, canon)
				if err != nil {
					col.Violation("C14:written-entry-rejected-on-read:large-number", fmt.Sprintf("the text written for an entry with number %d (%q) is rejected when read back: %v", n, canon, err), c14Replay{Text: canon})
				} else if !reflect.DeepEqual(base, back) {
					col.Violation("C14:write-read-differs:large-number", fmt.Sprintf("entry with number %d reads back as %+v", n, back), c14Replay{Text: canon})
				}
			}
		}
	}

	// ---- read-2: per-kind bodies ----
	common := []string{"number: 1", "number: 2", "number: x", "number: 1\r", "unknown: v", "nocolon", ""}
	bodies := map[string][]string{
		"reference":   append([]string{"ref: refs/heads/main", "ref: refs/heads/other", " ref : refs/heads/main ", "targetID: " + c14H1, "targetID: " + c14H2, "targetID: zz", "-----BEGIN MESSAGE-----"}, common...),
		"annotation":  append([]string{"entryID: " + c14H1, "entryID: " + c14H2, "entryID: zz", "skip: true", "skip: false", "skip: maybe", "ref: refs/heads/main", "-----BEGIN MESSAGE-----", " -----BEGIN MESSAGE-----", "bXNn", "-----END MESSAGE-----"}, common...),
		"propagation": append([]string{"ref: refs/heads/main", "ref: refs/heads/other", "targetID: " + c14H1, "targetID: " + c14H2, "upstreamRepository: https://h/x:y", "upstreamRepository: other", "upstreamEntryID: " + c14H1, "upstreamEntryID: " + c14H2}, common...),
	}
	headers := map[string]string{"reference": "RSL Reference Entry", "annotation": "RSL Annotation Entry", "propagation": "RSL Propagation Entry"}
	item := 0
	for _, kind := range []string{"reference", "annotation", "propagation"} {
		alpha := bodies[kind]
		for _, blank := range []string{"", "  "} {
			var body func(lines []string, depth int) bool
			body = func(lines []string, depth int) bool {
				if len(lines) > 2 {
					if !check(strings.Join(lines, "\n")) {
						return false
					}
				}
				if depth == bodyDepth[kind] {
					return true
				}
				for _, l := range alpha {
					if depth == 1 {
						// shard on the first two body lines
						item++
						if !evid.Mine(item) {
							continue
						}
					}
					if !body(append(lines, l), depth+1) {
						return false
					}
				}
				return true
			}
			body([]string{headers[kind], blank}, 0)
		}
	}
}

func c14WriteRead(col *evid.Collector) {
	refs := []string{"refs/heads/main", "refs/heads/a-b/c", "refs/tags/v1.0", "refs/gittuf/policy"}
	ids := []string{c14H1, "ab" + c14H2[2:], "0000000000000000000000000000000000000000",
		"4444444444444444444444444444444444444444444444444444444444444444"}
	bin := make([]byte, 1024)
	for i := range bin {
		bin[i] = byte(i * 7)
	}
	msgs := map[string]string{"empty": "", "x": "x", "multiline": "a\nb\n\nc", "crlf": "a\r\nb\r\n", "pem-markers": "x\n-----BEGIN MESSAGE-----\ny\n-----END MESSAGE-----\nz",
		"number-line": "number: 7", "binary": string(bin), "trailing-newline": "x\n", "leading-space": "  x  ", "only-newline": "\n"}
	ups := []string{"https://h/x", "git@h:x/y", "a:b:c", "."}
	cmp := func(kind, class string, want, got rsl.Entry, err error) {
		col.Inc("evaluations")
		col.Inc("write_read")
		col.Class("write/%s/%s", kind, class)
		if err != nil {
			col.Violation("C14:write-read:"+kind+":read-back-failed:"+class, fmt.Sprintf("%+v cannot be read back: %v", want, err), nil)
			return
		}
		if !reflect.DeepEqual(want, got) {
			col.Violation("C14:write-read:"+kind+":fields-differ:"+class, fmt.Sprintf("wrote %+v, read back %+v", want, got), nil)
		}
	}
	readTip := func(ms *memstore.Store) (rsl.Entry, error) {
		rsl.ResetCacheForVerif()
		return rsl.GetLatestEntry(ms)
	}
	for _, mode := range []string{"numbered", "legacy", "key"} {
		ms := memstore.New()
		num := uint64(0)
		for _, ref := range refs {
			for _, idS := range ids {
				h, _ := githash.NewHash(idS)
				e := rsl.NewReferenceEntry(ref, h)
				var err error
				switch mode {
				case "numbered":
					err = e.Commit(ms, false)
					num++
				case "legacy":
					err = e.CommitWithoutNumber(ms)
				case "key":
					err = e.CommitUsingSpecificKey(ms, c14Key())
					num++
				}
				if err != nil {
					col.Fail("recording failed: " + err.Error())
					return
				}
				got, rerr := readTip(ms)
				want := &rsl.ReferenceEntry{RefName: ref, TargetID: h, Number: num}
				if got != nil {
					want.ID = got.GetID()
				}
				cmp("reference", mode, want, got, rerr)

				for _, up := range ups {
					pe := rsl.NewPropagationEntry(ref, h, up, h)
					switch mode {
					case "numbered":
						err = pe.Commit(ms, false)
						num++
					case "key":
						err = pe.CommitUsingSpecificKey(ms, c14Key())
						num++
					default:
						continue
					}
					if err != nil {
						col.Fail("recording failed: " + err.Error())
						return
					}
					got, rerr := readTip(ms)
					wantP := &rsl.PropagationEntry{RefName: ref, TargetID: h, UpstreamRepository: up, UpstreamEntryID: h, Number: num}
					if got != nil {
						wantP.ID = got.GetID()
					}
					cmp("propagation", mode+"/"+up, wantP, got, rerr)
				}
			}
		}
		// annotations over 1..3 existing entries
		tip, _ := rsl.GetLatestEntry(ms)
		e1 := tip.GetID()
		p1, _ := rsl.GetParentForEntry(ms, tip)
		p2, _ := rsl.GetParentForEntry(ms, p1)
		idsets := [][]githash.Hash{{e1}, {e1, p1.GetID()}, {e1, p1.GetID(), p2.GetID()}}
		for _, set := range idsets {
			for _, skip := range []bool{true, false} {
				for mname, m := range msgs {
					a := rsl.NewAnnotationEntry(set, skip, m)
					var err error
					switch mode {
					case "numbered":
						err = a.Commit(ms, false)
						num++
					case "legacy":
						err = a.CommitWithoutNumber(ms)
					case "key":
						err = a.CommitUsingSpecificKey(ms, c14Key())
						num++
					}
					if err != nil {
						col.Fail("recording failed: " + err.Error())
						return
					}
					got, rerr := readTip(ms)
					want := &rsl.AnnotationEntry{RSLEntryIDs: set, Skip: skip, Message: m, Number: num}
					if got != nil {
						want.ID = got.GetID()
					}
					cmp("annotation", mode+"/"+mname, want, got, rerr)
				}
			}
		}
	}
}

func c14Key() []byte { return keys.Get("P0").PEM }
