package checks

import (
	"fmt"
	"io"
	"os"
	"path/filepath"
	"strings"
	"testing"
	"time"

	"github.com/gittuf/gittuf/pkg/githash"
	"github.com/gittuf/gittuf/pkg/gitstore"
	"github.com/gittuf/gittuf/pkg/rsl"
	"github.com/gittuf/gittuf/verif/evid"
	"github.com/gittuf/gittuf/verif/gitback"
	"github.com/gittuf/gittuf/verif/hist"
	"github.com/gittuf/gittuf/verif/rec"
	"github.com/gittuf/gittuf/verif/world"
	"github.com/jonboulle/clockwork"
)

// C17, lane G — the same controlled scheduler over REAL git repositories, so
// that pkg/gitinterface's own concurrency control (the tip read, the clock
// read and the compare-and-set `update-ref <new> <old>` inside
// Repository.Commit) is part of the code under exploration, not a stub.
// Scheduling points: before every Storer call a writer makes (wrapper around
// its own *gitinterface.Repository handle on the shared git directory) and at
// the clock read Repository.Commit performs between reading the tip and
// writing the commit / updating the reference. Each execution runs on a fresh
// copy of a template git directory; the final log is read with `cat-file`.

type c17GTemplate struct {
	repo  *gitback.Repo
	w     *hist.World
	start string
}

func c17GBuildTemplate(t *testing.T, start string) (*c17GTemplate, error) {
	r := gitback.New(t, true)
	w := hist.NewWorld()
	w.AddCommit(r, hist.CommitSpec{Name: "c0", Files: map[string]string{"a": "0"}})
	w.AddCommit(r, hist.CommitSpec{Name: "c1", Files: map[string]string{"a": "1"}, Parents: []string{"c0"}})
	w.AddCommit(r, hist.CommitSpec{Name: "c2", Files: map[string]string{"a": "2"}, Parents: []string{"c1"}})
	if start == "log2" {
		if err := rsl.NewReferenceEntry(refMain, w.Commits["c0"]).Commit(r, false); err != nil {
			return nil, err
		}
		if err := rsl.NewReferenceEntry(refFeat, w.Commits["c0"]).Commit(r, false); err != nil {
			return nil, err
		}
	}
	return &c17GTemplate{repo: r, w: w, start: start}, nil
}

func c17GCopy(src, dst string) error {
	return filepath.Walk(src, func(p string, info os.FileInfo, err error) error {
		if err != nil {
			return err
		}
		rel, _ := filepath.Rel(src, p)
		target := filepath.Join(dst, rel)
		if info.IsDir() {
			return os.MkdirAll(target, 0o755)
		}
		in, err := os.Open(p)
		if err != nil {
			return err
		}
		defer in.Close()
		out, err := os.OpenFile(target, os.O_CREATE|os.O_WRONLY|os.O_TRUNC, info.Mode().Perm()|0o200)
		if err != nil {
			return err
		}
		defer out.Close()
		_, err = io.Copy(out, in)
		return err
	})
}

// schedClock is the fixed test clock whose Now() is a scheduling point.
type schedClock struct {
	clockwork.Clock
	hook func()
}

func (c schedClock) Now() time.Time {
	c.hook()
	return c.Clock.Now()
}

type c17GWriter struct {
	Name    string
	Content string
	run     func(s gitstore.Storer) error
}

func c17GWriters(sc c17Scenario, tp *c17GTemplate, baseLog []gitback.RawCommit) []c17GWriter {
	w := tp.w
	record := func(ref, commit string) c17GWriter {
		return c17GWriter{Name: fmt.Sprintf("record(%s,%s)", strings.TrimPrefix(ref, "refs/heads/"), commit), Content: "ref: " + ref + "\ntargetID: " + w.Commits[commit].String(),
			run: func(s gitstore.Storer) error { return rsl.NewReferenceEntry(ref, w.Commits[commit]).Commit(s, false) }}
	}
	annotate := func(msg string) c17GWriter {
		id, _ := githash.NewHash(baseLog[len(baseLog)-1].ID)
		marker := map[string]string{"m1": "bTE=", "m2": "bTI="}[msg]
		return c17GWriter{Name: "annotate(#1," + msg + ")", Content: marker,
			run: func(s gitstore.Storer) error {
				return rsl.NewAnnotationEntry([]githash.Hash{id}, true, msg).Commit(s, false)
			}}
	}
	switch sc.Name {
	case "record+record":
		return []c17GWriter{record(refMain, "c1"), record(refFeat, "c2")}
	case "record+annotate":
		return []c17GWriter{record(refMain, "c1"), annotate("m1")}
	case "annotate+annotate":
		return []c17GWriter{annotate("m1"), annotate("m2")}
	case "record+record+record":
		return []c17GWriter{record(refMain, "c1"), record(refFeat, "c2"), record("refs/heads/third", "c1")}
	}
	return nil
}

type c17GExec struct {
	points  []c17Point
	errs    []error
	trace   []string
	diverge string
	log     []world.RSLEntry
	dir     string
	handle  gitstore.Storer
}

func (x *c17GExec) choices() []int {
	out := make([]int, len(x.points))
	for i, p := range x.points {
		out[i] = p.chosen
	}
	return out
}

func (x *c17GExec) preemptionsBefore(i int) int {
	n := 0
	for j := 0; j < i; j++ {
		p := x.points[j]
		if p.running >= 0 && len(p.enabled) > 0 && p.enabled[0] == p.running && p.chosen != 0 {
			n++
		}
	}
	return n
}

// c17GRun executes one schedule on a fresh copy of the template repository.
func c17GRun(sc c17Scenario, tp *c17GTemplate, baseLog []gitback.RawCommit, prefix []int) (*c17GExec, error) {
	dir, err := os.MkdirTemp(os.Getenv("VERIF_SCRATCH"), "c17g-")
	if err != nil {
		return nil, err
	}
	if err := c17GCopy(tp.repo.GetGitDir(), dir); err != nil {
		os.RemoveAll(dir)
		return nil, err
	}
	writers := c17GWriters(sc, tp, baseLog)
	rsl.ResetCacheForVerif()
	n := len(writers)
	toSched := make(chan c17Msg)
	resume := make([]chan struct{}, n)
	x := &c17GExec{errs: make([]error, n), dir: dir}
	fixed := clockwork.NewFakeClockAt(time.Date(1995, time.October, 26, 9, 0, 0, 0, time.UTC))
	for i := range writers {
		resume[i] = make(chan struct{})
		i := i
		park := func(step string) {
			toSched <- c17Msg{tid: i, step: step}
			<-resume[i]
		}
		h, err := gitback.Rebind(tp.repo.Repository, dir, schedClock{Clock: fixed, hook: func() { park("clock.Now (inside Commit, between tip read and reference update)") }})
		if err != nil {
			os.RemoveAll(dir)
			return nil, err
		}
		view := &rec.Recorder{Inner: h, Quiet: true, Before: func(method, arg string) { park(strings.TrimSpace(method + " " + arg)) }}
		go func() {
			<-resume[i]
			x.errs[i] = writers[i].run(view)
			toSched <- c17Msg{tid: i, done: true}
		}()
	}
	parked := make([]bool, n)
	pending := make([]string, n)
	for i := 0; i < n; i++ {
		resume[i] <- struct{}{}
		m := <-toSched
		if !m.done {
			parked[m.tid] = true
			pending[m.tid] = m.step
		}
	}
	running := -1
	for {
		enabled := []int{}
		if running >= 0 && parked[running] {
			enabled = append(enabled, running)
		}
		for i := 0; i < n; i++ {
			if parked[i] && i != running {
				enabled = append(enabled, i)
			}
		}
		if len(enabled) == 0 {
			break
		}
		choice := 0
		if len(x.points) < len(prefix) {
			choice = prefix[len(x.points)]
			if choice >= len(enabled) {
				x.diverge = fmt.Sprintf("lane G replay divergence at point %d: choice %d of %d enabled", len(x.points), choice, len(enabled))
				choice = 0
			}
		}
		x.points = append(x.points, c17Point{enabled: enabled, chosen: choice, running: running})
		t := enabled[choice]
		x.trace = append(x.trace, fmt.Sprintf("T%d:%s", t, pending[t]))
		parked[t] = false
		running = t
		resume[t] <- struct{}{}
		m := <-toSched
		if !m.done {
			parked[m.tid] = true
			pending[m.tid] = m.step
		}
	}
	raw, err := gitback.ReadChain(dir, rsl.Ref)
	if err != nil {
		x.log = append(x.log, world.RSLEntry{ID: "?", Text: "<unreadable: " + err.Error() + ">"})
	}
	for _, c := range raw {
		// commit-tree terminates the message with a newline
		x.log = append(x.log, world.RSLEntry{ID: c.ID, Parents: c.Parents, Text: strings.TrimSuffix(c.Message, "\n")})
	}
	h, err := gitback.Rebind(tp.repo.Repository, dir, nil)
	if err != nil {
		os.RemoveAll(dir)
		return nil, err
	}
	x.handle = h
	return x, nil
}

func c17GExplore(t *testing.T, sc c17Scenario, bound int, col *evid.Collector, item *int) {
	tp, err := c17GBuildTemplate(t, sc.Start)
	if err != nil {
		col.Fail("lane G template: " + err.Error())
		return
	}
	baseLog, err := gitback.ReadChain(tp.repo.GetGitDir(), rsl.Ref)
	if err != nil {
		col.Fail("lane G template log: " + err.Error())
		return
	}
	names := []string{}
	contents := []string{}
	for _, w := range c17GWriters(sc, tp, baseLog) {
		names = append(names, w.Name)
		contents = append(contents, w.Content)
	}
	run := func(prefix []int) *c17GExec {
		x, err := c17GRun(sc, tp, baseLog, prefix)
		if err != nil {
			col.Fail("lane G run: " + err.Error())
			return nil
		}
		return x
	}
	a, b := run(nil), run(nil)
	if a == nil || b == nil {
		return
	}
	os.RemoveAll(a.dir)
	os.RemoveAll(b.dir)
	if strings.Join(a.trace, "|") != strings.Join(b.trace, "|") {
		col.Fail("lane G scheduler is not deterministic for " + sc.Name)
		return
	}
	var explore func(prefix []int, depth int)
	explore = func(prefix []int, depth int) {
		if col.Expired() {
			return
		}
		x := run(prefix)
		if x == nil {
			return
		}
		defer os.RemoveAll(x.dir)
		if x.diverge != "" {
			col.Fail(x.diverge)
			return
		}
		col.Inc("evaluations")
		col.Inc("lane_g_schedules")
		col.Inc("states")
		col.Inc("traces_validated_against_impl")
		col.Add("transitions", int64(len(x.points)))
		rp := c17Replay{Scenario: sc.Name, Start: sc.Start, Choices: x.choices(), Trace: x.trace, Lane: "G"}
		where := fmt.Sprintf("[real git] %s from %s, schedule %s", sc.Name, sc.Start, strings.Join(x.trace, " | "))
		c17Judge(sc, "G", where, rp, names, contents, x.errs, len(baseLog), x.log, x.handle, x.preemptionsBefore(len(x.points)), col)
		for i := len(prefix); i < len(x.points); i++ {
			p := x.points[i]
			cost := x.preemptionsBefore(i)
			if p.running >= 0 && len(p.enabled) > 0 && p.enabled[0] == p.running {
				cost++
			}
			if bound >= 0 && cost > bound {
				continue
			}
			for alt := 1; alt < len(p.enabled); alt++ {
				if depth == 0 {
					*item++
					if !evid.Mine(*item) {
						continue
					}
				}
				np := append(append([]int{}, x.choices()[:i]...), alt)
				explore(np, depth+1)
			}
		}
	}
	explore(nil, 0)
}

func c17GReplay(t *testing.T, sc c17Scenario, r c17Replay, col *evid.Collector) {
	tp, err := c17GBuildTemplate(t, sc.Start)
	if err != nil {
		col.Fail("lane G template: " + err.Error())
		return
	}
	baseLog, err := gitback.ReadChain(tp.repo.GetGitDir(), rsl.Ref)
	if err != nil {
		col.Fail(err.Error())
		return
	}
	names, contents := []string{}, []string{}
	for _, w := range c17GWriters(sc, tp, baseLog) {
		names = append(names, w.Name)
		contents = append(contents, w.Content)
	}
	for round := 0; round < 5; round++ {
		x, err := c17GRun(sc, tp, baseLog, r.Choices)
		if err != nil {
			col.Fail(err.Error())
			return
		}
		if x.diverge != "" {
			os.RemoveAll(x.dir)
			col.Fail(x.diverge)
			return
		}
		col.Inc("evaluations")
		col.Inc("lane_g_schedules")
		where := fmt.Sprintf("[real git] %s from %s, schedule %s", sc.Name, sc.Start, strings.Join(x.trace, " | "))
		c17Judge(sc, "G", where, r, names, contents, x.errs, len(baseLog), x.log, x.handle, x.preemptionsBefore(len(x.points)), col)
		os.RemoveAll(x.dir)
	}
}
