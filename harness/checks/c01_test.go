package checks

import (
	"testing"

	"github.com/gittuf/gittuf/verif/evid"
	"github.com/gittuf/gittuf/verif/hist"
	"github.com/gittuf/gittuf/verif/memstore"
	"github.com/gittuf/gittuf/verif/refver"
	"github.com/gittuf/gittuf/verif/world"
)

var world_ctx = world.Ctx

const (
	refMain = "refs/heads/main"
	refFeat = "refs/heads/feat"
)

func c01World(ms *memstore.Store) *hist.World {
	w := hist.NewWorld()
	w.AddCommit(ms, hist.CommitSpec{Name: "c0", Files: map[string]string{"a": "0"}})
	w.AddCommit(ms, hist.CommitSpec{Name: "c1", Files: map[string]string{"a": "1"}, Parents: []string{"c0"}})
	w.AddCommit(ms, hist.CommitSpec{Name: "c2", Files: map[string]string{"a": "2"}, Parents: []string{"c1"}})
	w.AddCommit(ms, hist.CommitSpec{Name: "r", Files: map[string]string{"a": "0"}, Parents: []string{"c2"}})
	w.AddCommit(ms, hist.CommitSpec{Name: "x", Files: map[string]string{"b": "9"}})
	return w
}

func stdPolicy(name string, files map[string]hist.FileSpec) *hist.PolicySpec {
	for n, f := range files {
		if f.Signers == nil {
			f.Signers = []string{"T0"}
			files[n] = f
		}
	}
	return &hist.PolicySpec{Name: name, RootKeys: []string{"R0"}, RootThreshold: 1, RootSigners: []string{"R0"}, TargetsKeys: []string{"T0"}, TargetsThreshold: 1, Files: files}
}

func mainRule(principals []string, threshold int) hist.RuleSpec {
	return hist.RuleSpec{Name: "protect-main", Patterns: []string{"git:" + refMain}, Principals: principals, Threshold: threshold}
}

func c01Policies() []*hist.PolicySpec {
	return []*hist.PolicySpec{
		stdPolicy("P0P1/1", map[string]hist.FileSpec{"targets": {Rules: []hist.RuleSpec{mainRule([]string{"P0", "P1"}, 1)}}}),
		stdPolicy("P1/1", map[string]hist.FileSpec{"targets": {Rules: []hist.RuleSpec{mainRule([]string{"P1"}, 1)}}}),
		stdPolicy("P0P1P2/2", map[string]hist.FileSpec{"targets": {Rules: []hist.RuleSpec{mainRule([]string{"P0", "P1", "P2"}, 2)}}}),
		// two levels: main -> {P0}, whose delegated file grants {P2}
		stdPolicy("deleg", map[string]hist.FileSpec{
			"targets":      {Rules: []hist.RuleSpec{mainRule([]string{"P0"}, 1)}},
			"protect-main": {Rules: []hist.RuleSpec{{Name: "inner-main", Patterns: []string{"git:" + refMain}, Principals: []string{"P2"}, Threshold: 1}}, Signers: []string{"P0"}},
		}),
		stdPolicy("main+feat", map[string]hist.FileSpec{"targets": {Rules: []hist.RuleSpec{mainRule([]string{"P0"}, 1), {Name: "protect-feat", Patterns: []string{"git:" + refFeat}, Principals: []string{"P1"}, Threshold: 1}}}}),
		stdPolicy("feat-only", map[string]hist.FileSpec{"targets": {Rules: []hist.RuleSpec{{Name: "protect-feat", Patterns: []string{"git:" + refFeat}, Principals: []string{"P1"}, Threshold: 1}}}}),
	}
}

func c01Menu(thorough bool) func(h *hist.Hist, depth int) []hist.Event {
	return func(h *hist.Hist, depth int) []hist.Event {
		evs := []hist.Event{}
		for _, c := range []string{"c1", "c2", "x"} {
			for _, s := range []string{"P0", "P1", "P2", "U", ""} {
				evs = append(evs, hist.Event{Kind: "push", Ref: refMain, Commit: c, Signer: s})
			}
		}
		for _, s := range []string{"P1", "U"} {
			evs = append(evs, hist.Event{Kind: "push", Ref: refFeat, Commit: "c1", Signer: s})
		}
		for i := range h.Policies {
			evs = append(evs, hist.Event{Kind: "policy", Policy: i})
		}
		evs = append(evs,
			hist.Event{Kind: "approve", Ref: refMain, Commit: "c1", Signers: []string{"P1"}},
			hist.Event{Kind: "approve", Ref: refMain, Commit: "c1", Signers: []string{"P1", "P2"}},
			hist.Event{Kind: "approve", Ref: refMain, Commit: "c1", Signers: []string{"U"}},
			hist.Event{Kind: "approve", Ref: refMain, Commit: "c2", Signers: []string{"P2"}},
		)
		lastPush := -1
		for i, e := range h.A.Entries {
			if e.Kind == refver.Push {
				evs = append(evs, hist.Event{Kind: "annotate", Names: []int{i}, Skip: true})
				lastPush = i
			}
		}
		if lastPush >= 0 {
			evs = append(evs, hist.Event{Kind: "annotate", Names: []int{lastPush}, Skip: false})
		}
		evs = append(evs,
			hist.Event{Kind: "propagate", Ref: refMain, Commit: "c1", Signer: "P0"},
			hist.Event{Kind: "propagate", Ref: refMain, Commit: "c1", Signer: "U"},
			hist.Event{Kind: "staging", Policy: 1},
		)
		return evs
	}
}

// ---- tag scenario: two recordings of one tag under a threshold-2 rule ----

func c01TagWorld(ms *memstore.Store) *hist.World {
	w := c01World(ms)
	w.AddTag(ms, "tagA", "v1", "c1", "P0")
	w.AddTag(ms, "tagU", "v1", "c1", "U")
	return w
}

func c01TagPolicies() []*hist.PolicySpec {
	tags := func(ps []string, thr int) hist.RuleSpec {
		return hist.RuleSpec{Name: "protect-tags", Patterns: []string{"git:refs/tags/*"}, Principals: ps, Threshold: thr}
	}
	return []*hist.PolicySpec{
		stdPolicy("tags:P0P1/2", map[string]hist.FileSpec{"targets": {Rules: []hist.RuleSpec{mainRule([]string{"P0"}, 1), tags([]string{"P0", "P1"}, 2)}}}),
		stdPolicy("tags:P0P1/1", map[string]hist.FileSpec{"targets": {Rules: []hist.RuleSpec{mainRule([]string{"P0"}, 1), tags([]string{"P0", "P1"}, 1)}}}),
	}
}

func c01TagMenu(h *hist.Hist, depth int) []hist.Event {
	evs := []hist.Event{}
	for _, s := range []string{"P0", "P1", "U", ""} {
		evs = append(evs, hist.Event{Kind: "push", Ref: refTag, Commit: "tagA", Signer: s})
	}
	evs = append(evs,
		hist.Event{Kind: "push", Ref: refTag, Commit: "tagU", Signer: "P0"},
		hist.Event{Kind: "approve", Ref: refTag, Commit: "tagA", Signers: []string{"P1"}},
		hist.Event{Kind: "approve", Ref: refTag, Commit: "tagA", Signers: []string{"P0"}},
		hist.Event{Kind: "approve", Ref: refTag, Commit: "tagA", Signers: []string{"U"}},
		hist.Event{Kind: "policy", Policy: 0}, hist.Event{Kind: "policy", Policy: 1},
	)
	for i, e := range h.A.Entries {
		if e.Kind == refver.Push && e.Ref == refTag {
			evs = append(evs, hist.Event{Kind: "annotate", Names: []int{i}, Skip: true})
		}
	}
	return evs
}

func c01Scenarios(thorough bool) []*e1Scenario {
	depth := 3
	if thorough {
		depth = 4
	}
	base := &e1Scenario{Name: "C01/policy-first", World: c01World, Policies: c01Policies(),
		Prefix: []hist.Event{{Kind: "policy", Policy: 0}, {Kind: "push", Ref: refMain, Commit: "c0", Signer: "P0"}},
		Menu:   c01Menu(thorough), Depth: depth, Refs: []string{refMain, refFeat}}
	noPolicy := &e1Scenario{Name: "C01/no-initial-policy", World: c01World, Policies: c01Policies(),
		Prefix: nil, Menu: c01Menu(thorough), Depth: depth, Refs: []string{refMain, refFeat}}
	tagDepth := 4
	if thorough {
		tagDepth = 5
	}
	tags := &e1Scenario{Name: "C01/tags", World: c01TagWorld, Policies: c01TagPolicies(),
		Prefix: []hist.Event{{Kind: "policy", Policy: 0}}, Menu: c01TagMenu, Depth: tagDepth, Refs: []string{refTag}}
	// a revoked violation is open when exploration starts: policy changes,
	// the repair and later pushes interleave inside and after the recovery
	// window (entries set aside during the fix search must be judged, and
	// must take effect, in log order)
	incidentMenu := func(h *hist.Hist, d int) []hist.Event {
		evs := c01Menu(thorough)(h, d)
		for _, s := range []string{"P0", "U"} {
			evs = append(evs, hist.Event{Kind: "push", Ref: refMain, Commit: "r", Signer: s})
		}
		return evs
	}
	incident := &e1Scenario{Name: "C01/open-incident", World: c01World, Policies: c01Policies(),
		Prefix: []hist.Event{{Kind: "policy", Policy: 0}, {Kind: "push", Ref: refMain, Commit: "c0", Signer: "P0"},
			{Kind: "push", Ref: refMain, Commit: "c1", Signer: "U"}, {Kind: "annotate", Names: []int{2}, Skip: true}},
		Menu: incidentMenu, Depth: depth, Refs: []string{refMain, refFeat}}
	return []*e1Scenario{base, noPolicy, tags, incident}
}

func TestC01(t *testing.T) {
	col := evid.New("C01")
	defer func() {
		if err := col.Write(); err != nil {
			t.Fatal(err)
		}
	}()
	scs := c01Scenarios(evid.Thorough())
	col.Bound("events_after_prefix", scs[0].Depth)
	col.Rule("depth-first enumeration of every sequence of <= %d events after a scenario prefix over the alphabet {push of c1/c2/unrelated to main by P0/P1/P2/unknown key/unsigned, push to feat by P1/unknown, publish one of 6 policies (threshold 1, de-authorising, threshold 2, two-level delegation, second protected ref, main unprotected), approvals of the next change by {P1},{P1,P2},{U},{P2}, skip annotation of any earlier push, plain annotation, propagation entry signed by P0/unknown, staging entry}; at EVERY node VerifyRefFull, VerifyRef and VerifyRefFromEntry (from every entry reached by an earlier successful full verification) are run for main and feat and compared (verdict and tip) with the reference verifier on the abstract record. A class is (scenario, mode, implementation error class, oracle verdict)", scs[0].Depth)
	col.Assume("ideal cryptography: signatures are real ed25519/sshsig signatures or absent; GPG/sigstore keys not in the alphabet; long random histories are not covered (sampling is not claimed)")
	if e1Replayer(scs, col) {
		return
	}
	e1ExploreTiers(c01Scenarios, nil, col)
}
