package checks

import (
	"errors"
	"fmt"
	"sort"
	"strings"
	"testing"

	"github.com/gittuf/gittuf/internal/attestations"
	"github.com/gittuf/gittuf/internal/policy"
	"github.com/gittuf/gittuf/pkg/githash"
	"github.com/gittuf/gittuf/pkg/rsl"
	"github.com/gittuf/gittuf/verif/evid"
	"github.com/gittuf/gittuf/verif/hist"
	"github.com/gittuf/gittuf/verif/keys"
	"github.com/gittuf/gittuf/verif/memstore"
	"github.com/gittuf/gittuf/verif/world"
)

// C16 — fault and crash point enumeration: for every (start state, mutating
// operation) the storage calls of an uninterrupted run are counted (the two
// commit methods count as three steps: read tip, write object, compare-and-
// set); then for EVERY index k the k-th step fails (fault), and the operation
// is abandoned right after the k-th step (crash).

var errInjected = errors.New("injected storage fault")

type c16Crash struct{}

type c16World struct {
	ms       *memstore.Store
	w        *hist.World
	policies []*hist.PolicySpec
}

func c16Base() *c16World {
	ms := memstore.New()
	w := c01World(ms)
	pols := []*hist.PolicySpec{
		stdPolicy("P0", map[string]hist.FileSpec{"targets": {Rules: []hist.RuleSpec{mainRule([]string{"P0"}, 1)}}}),
		stdPolicy("P0P1", map[string]hist.FileSpec{"targets": {Rules: []hist.RuleSpec{mainRule([]string{"P0", "P1"}, 1)}}}),
	}
	return &c16World{ms: ms, w: w, policies: pols}
}

// c16Starts builds the start states (each from scratch, deterministic).
func c16Start(name string) *c16World {
	b := c16Base()
	ms := b.ms
	stage := func(i int, version uint64) {
		must(b.policies[i].Build(version).Commit(ms, "stage", true, false))
	}
	established := func() {
		stage(0, 1)
		must(policy.Apply(world_ctx, ms, false))
		must(world.Record(ms, refMain, b.w.Commits["c0"], keys.Get("P0")))
		a, err := attestations.LoadCurrentAttestations(ms)
		must(err)
		env, err := hist.AuthEnvelope(refMain, b.w.Commits["c0"].String(), b.w.Trees["c2"].String(), false, []string{"P0"})
		must(err)
		must(a.SetReferenceAuthorization(ms, env, refMain, b.w.Commits["c0"].String(), b.w.Trees["c2"].String()))
		must(a.Commit(ms, "attest", true, false))
	}
	direct := func() {
		// a change lands directly in the policy ref (as a propagation would)
		tip, err := ms.GetReference(policy.PolicyRef)
		must(err)
		tree, err := ms.GetCommitTreeID(tip)
		must(err)
		c, err := ms.Commit(tree, policy.PolicyRef, "propagated", false)
		must(err)
		must(rsl.NewReferenceEntry(policy.PolicyRef, c).Commit(ms, false))
	}
	switch name {
	case "empty":
	case "first-policy-staged":
		stage(0, 1)
	case "established":
		established()
	case "update-staged":
		established()
		stage(1, 2)
	case "policy-ahead-of-staging":
		established()
		direct()
	case "diverged":
		established()
		stage(1, 2)
		direct()
	default:
		panic("unknown start " + name)
	}
	return b
}

type c16Op struct {
	name   string
	starts []string
	run    func(b *c16World, ms *memstore.Store) error
	listed bool // one of the operations the statement lists (error demanded)
}

func c16Ops() []c16Op {
	return []c16Op{
		{"record", []string{"empty", "established"}, func(b *c16World, ms *memstore.Store) error {
			return rsl.NewReferenceEntry(refMain, b.w.Commits["c1"]).CommitUsingSpecificKey(ms, keys.Get("P0").PEM)
		}, true},
		{"annotate", []string{"established"}, func(b *c16World, ms *memstore.Store) error {
			tip, err := githash.NewHash(ms.Ref(rsl.Ref))
			if err != nil {
				return err
			}
			return rsl.NewAnnotationEntry([]githash.Hash{tip}, true, "m").Commit(ms, false)
		}, true},
		{"propagation-entry", []string{"empty", "established"}, func(b *c16World, ms *memstore.Store) error {
			return rsl.NewPropagationEntry(refMain, b.w.Commits["c1"], "https://up/x", b.w.Commits["c0"]).Commit(ms, false)
		}, true},
		{"stage-policy", []string{"empty", "established", "update-staged"}, func(b *c16World, ms *memstore.Store) error {
			return b.policies[1].Build(3).Commit(ms, "stage", true, false)
		}, true},
		{"stage-policy-no-entry", []string{"empty", "established"}, func(b *c16World, ms *memstore.Store) error {
			return b.policies[1].Build(3).Commit(ms, "stage", false, false)
		}, true},
		{"apply", []string{"first-policy-staged", "update-staged", "policy-ahead-of-staging", "diverged", "established"}, func(b *c16World, ms *memstore.Store) error {
			return policy.Apply(world_ctx, ms, false)
		}, true},
		{"reconcile-staging", []string{"policy-ahead-of-staging", "diverged", "established"}, func(b *c16World, ms *memstore.Store) error {
			return policy.ReconcileStaging(ms, false)
		}, true},
		{"discard", []string{"update-staged", "first-policy-staged"}, func(b *c16World, ms *memstore.Store) error {
			return policy.Discard(ms)
		}, false},
		{"commit-attestations", []string{"empty", "established"}, func(b *c16World, ms *memstore.Store) error {
			a, err := attestations.LoadCurrentAttestations(ms)
			if err != nil {
				return err
			}
			env, err := hist.AuthEnvelope(refMain, "0000000000000000000000000000000000000000", b.w.Trees["c1"].String(), false, []string{"P1"})
			if err != nil {
				return err
			}
			if err := a.SetReferenceAuthorization(ms, env, refMain, "0000000000000000000000000000000000000000", b.w.Trees["c1"].String()); err != nil {
				return err
			}
			return a.Commit(ms, "attest", true, false)
		}, true},
	}
}

var c16Managed = []string{policy.PolicyRef, policy.PolicyStagingRef, attestations.Ref}

// c16State is the comparable outcome: log texts and managed refs' trees.
func c16State(ms *memstore.Store) string {
	var b strings.Builder
	log := world.WalkRSL(ms)
	for i := len(log) - 1; i >= 0; i-- {
		b.WriteString(log[i].Text)
		b.WriteString("\n--\n")
	}
	for _, r := range c16Managed {
		id := ms.Ref(r)
		tree := ""
		if c, ok := ms.RawCommit(id); ok {
			tree = c.Tree
		}
		fmt.Fprintf(&b, "%s tree=%s\n", r, tree)
	}
	return b.String()
}

func c16LatestTargetFor(log []world.RSLEntry, ref string) string {
	for _, e := range log {
		p := world.ParseText(e.Text)
		if (p.Kind == "reference" || p.Kind == "propagation") && p.Ref == ref {
			return p.Target
		}
	}
	return ""
}

// c16Consistent checks the post-fault invariants; returns "" or a reason.
func c16Consistent(before, after *memstore.Store) string {
	old, now := world.WalkRSL(before), world.WalkRSL(after)
	if msg := world.CheckChain(now); msg != "" {
		return "log-not-a-valid-chain: " + msg
	}
	if len(now) < len(old) {
		return "log-shrank"
	}
	off := len(now) - len(old)
	for i := range old {
		if now[off+i].ID != old[i].ID {
			return "old-log-not-a-prefix"
		}
	}
	for _, r := range c16Managed {
		cur := after.Ref(r)
		if cur == before.Ref(r) {
			continue
		}
		if cur == "" || cur != c16LatestTargetFor(now, r) {
			return "managed-ref-neither-unchanged-nor-at-its-latest-log-entry:" + r
		}
	}
	return ""
}

func c16Verdicts(ms *memstore.Store) string {
	out := []string{}
	for _, ref := range []string{refMain} {
		s := ms.Snapshot()
		rsl.ResetCacheForVerif()
		_, err := policy.NewPolicyVerifier(s).VerifyRefFull(world_ctx, ref)
		out = append(out, ref+"="+e1ErrClass(err))
	}
	sort.Strings(out)
	return strings.Join(out, ",")
}

type c16Replay struct {
	Start string `json:"start"`
	Op    string `json:"op"`
	K     int    `json:"k"`
	Mode  string `json:"mode"` // fault | crash | double-fault
	K2    int    `json:"k2,omitempty"`
}

func c16RunCounted(b *c16World, ms *memstore.Store, op c16Op, faultAt, crashAfter int) (err error, steps []string, crashed bool) {
	n := 0
	ms.Hook = func(step string, args ...string) error {
		n++
		steps = append(steps, step)
		if crashAfter > 0 && n == crashAfter+1 {
			panic(c16Crash{})
		}
		if n == faultAt {
			return fmt.Errorf("%w at step %d (%s)", errInjected, n, step)
		}
		return nil
	}
	defer func() {
		ms.Hook = nil
		if r := recover(); r != nil {
			if _, ok := r.(c16Crash); ok {
				crashed = true
				return
			}
			panic(r)
		}
	}()
	rsl.ResetCacheForVerif()
	err = op.run(b, ms)
	return err, steps, false
}

func c16Explore(start string, op c16Op, col *evid.Collector, only *c16Replay) {
	b := c16Start(start)
	base := b.ms
	// uninterrupted run
	full := base.Snapshot()
	err, steps, _ := c16RunCounted(b, full, op, 0, 0)
	if err != nil {
		col.Note("%s/%s: operation fails without any fault (%v); skipped", start, op.name, err)
		col.Inc("ops_failing_without_fault")
		return
	}
	n := len(steps)
	want := c16State(full)
	verdictBefore, verdictAfter := c16Verdicts(base), c16Verdicts(full)
	col.Inc("operation_runs")
	col.Add("storage_steps", int64(n))
	if n > 0 {
		col.Sample(map[string]any{"start": start, "op": op.name, "steps": n, "first_steps": steps[:min(n, 8)]})
	}
	for k := 1; k <= n; k++ {
		if only != nil && (only.K != k) {
			continue
		}
		// ---- fault at step k ----
		if only == nil || only.Mode == "fault" {
			s := base.Snapshot()
			err, st, _ := c16RunCounted(b, s, op, k, 0)
			step := "?"
			if k <= len(st) {
				step = st[k-1]
			}
			col.Inc("evaluations")
			col.Inc("faults_injected")
			rp := c16Replay{Start: start, Op: op.name, K: k, Mode: "fault"}
			where := fmt.Sprintf("%s/%s fault at step %d/%d (%s)", start, op.name, k, n, step)
			col.Class("fault/%s/%s/%s/err=%v", start, op.name, step, err != nil)
			if reason := c16Consistent(base, s); reason != "" {
				kind := strings.SplitN(reason, ":", 2)[0]
				sig := "C16:fault:" + op.name + ":" + kind + ":" + c16StartClass(start)
				switch {
				case kind == "log-not-a-valid-chain" && strings.Contains(reason, "has number 1 but its parent is numbered"):
					// cause: a failed read of the log tip is reported as
					// "entry not found" and taken for an empty log
					sig = "C16:fault:read-failure-of-log-tip-taken-for-empty-log:numbering-restarts-at-1"
				case kind == "managed-ref-neither-unchanged-nor-at-its-latest-log-entry" && c16StartClass(start) == "prior-tip-zero":
					sig = "C16:fault:no-rollback-when-prior-tip-is-zero:" + op.name
				case kind == "managed-ref-neither-unchanged-nor-at-its-latest-log-entry" && (start == "policy-ahead-of-staging" || start == "diverged") && strings.HasSuffix(reason, policy.PolicyStagingRef):
					sig = "C16:fault:reconcile-staging-moves-staging-ref-without-rollback"
				}
				col.Violation(sig, where+": "+reason, rp)
				continue
			}
			if err == nil {
				readOnly := !strings.HasPrefix(step, "Commit.") && !strings.HasPrefix(step, "Write") && !strings.HasPrefix(step, "Set") && !strings.HasPrefix(step, "Delete") && !strings.HasPrefix(step, "Reset")
				if c16State(s) == want && readOnly {
					// a failed READ was absorbed and the outcome is exactly
					// that of an uninterrupted run: nothing for a retry to
					// repair; counted, not judged (see DESIGN C16)
					col.Inc("read_faults_absorbed_same_outcome")
				} else if op.listed {
					outcome := "outcome-differs-from-uninterrupted-run"
					if c16State(s) == want {
						outcome = "outcome-identical"
					}
					col.Violation("C16:fault-not-reported:"+op.name+":"+step+":"+outcome, where+": operation returned nil", rp)
				}
				continue
			}
			col.Inc("faults_reported")
			// retry once the fault clears
			rsl.ResetCacheForVerif()
			err2 := op.run(b, s)
			if err2 != nil {
				col.Violation("C16:retry-fails:"+op.name+":"+c16StartClass(start)+":after-fault-at-"+step, where+": retry failed: "+err2.Error(), rp)
				continue
			}
			if got := c16State(s); got != want {
				sig := "C16:retry-reaches-different-state:" + op.name + ":" + c16StartClass(start) + ":after-fault-at-" + step
				if start == "diverged" && (op.name == "apply" || op.name == "reconcile-staging") {
					sig = "C16:reconcile-staging-diverged-path-not-atomic:retry-does-not-restore-the-staged-changes"
				}
				col.Violation(sig, where+": state after retry differs from an uninterrupted run", rp)
				continue
			}
			col.Inc("retries_ok")
		}
		// ---- crash right after step k ----
		if k < n && (only == nil || only.Mode == "crash") {
			s := base.Snapshot()
			_, st, crashed := c16RunCounted(b, s, op, 0, k)
			if !crashed {
				continue
			}
			step := st[k-1]
			col.Inc("evaluations")
			col.Inc("crashes_injected")
			rp := c16Replay{Start: start, Op: op.name, K: k, Mode: "crash"}
			where := fmt.Sprintf("%s/%s abandoned after step %d/%d (%s)", start, op.name, k, n, step)
			if msg := world.CheckChain(world.WalkRSL(s)); msg != "" {
				col.Violation("C16:crash:"+op.name+":log-not-a-valid-chain", where+": "+msg, rp)
				continue
			}
			v := c16Verdicts(s)
			col.Class("crash/%s/%s/%s/verdict=%s", start, op.name, step, v)
			if v != verdictBefore && v != verdictAfter {
				col.Violation("C16:crash:"+op.name+":verdict-neither-before-nor-after:"+c16StartClass(start), fmt.Sprintf("%s: verdicts %s, before %s, after %s", where, v, verdictBefore, verdictAfter), rp)
			}
		}
	}
}

func c16StartClass(start string) string {
	switch start {
	case "empty", "first-policy-staged":
		return "prior-tip-zero"
	default:
		return start
	}
}

func TestC16(t *testing.T) {
	col := evid.New("C16")
	defer func() {
		if err := col.Write(); err != nil {
			t.Fatal(err)
		}
	}()
	col.Rule("for every (start state in {empty repository, first policy staged but never applied, established repository, policy update staged, policy ahead of staging, policy and staging diverged}, mutating operation in {record entry, annotate, propagation entry, commit staged policy with/without log entry, apply, reconcile staging, discard, commit attestations}): count the storage-interface steps of an uninterrupted run (the commit methods are three steps: read tip, write object, compare-and-set), then for EVERY k: step k returns an error (fault) and, separately, the operation is abandoned right after step k (crash); after a fault: error reported, log a valid chain extending the old one by whole entries, every managed ref unchanged or at its latest log entry, retry succeeds and reaches the state of the uninterrupted run; after a crash: log a valid chain and VerifyRefFull(main) verdict equals the verdict before or after the operation. A class is (fault|crash, start, operation, step kind, outcome)")
	col.Assume("each Storer call is atomic (commit = 3 atomic steps); torn writes inside git are out of scope; the order of blob writes of one policy state follows Go map iteration and is not controlled (all indices are enumerated anyway)")
	var only *c16Replay
	if rf := evid.ReplayFile(); rf != "" {
		only = &c16Replay{}
		if err := evid.LoadReplay(rf, only); err != nil {
			col.Fail(err.Error())
			return
		}
	}
	item := 0
	for _, op := range c16Ops() {
		for _, start := range op.starts {
			item++
			if only != nil {
				if only.Op != op.name || only.Start != start {
					continue
				}
			} else if !evid.Mine(item) {
				continue
			}
			c16Explore(start, op, col, only)
		}
	}
}
