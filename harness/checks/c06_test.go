package checks

import (
	"fmt"
	"sort"
	"strings"
	"testing"
	"time"

	"github.com/gittuf/gittuf/internal/policy"
	sslibdsse "github.com/gittuf/gittuf/internal/third_party/go-securesystemslib/dsse"
	"github.com/gittuf/gittuf/internal/tuf"
	"github.com/gittuf/gittuf/verif/evid"
	"github.com/gittuf/gittuf/verif/keys"
	"github.com/gittuf/gittuf/verif/refver"
	"github.com/gittuf/gittuf/verif/world"
)

// C06 — every delegation graph of a bounded family (cycles and diamonds
// included) x every path of a covering set: the verifiers returned by the real
// State.FindVerifiersForPath are compared with a recursive pre-order reference
// walk written from the property statement.

type c06Rule struct {
	Name        string `json:"name"`
	Pattern     string `json:"pattern"`
	Terminating bool   `json:"terminating"`
}

type c06Graph map[string][]c06Rule // file name -> rules (without allow rule)

var (
	c06Files    = []string{"targets", "A", "B", "C"}
	c06Paths    = []string{"git:refs/heads/main", "git:refs/heads/x", "git:refs/tags/v", "file:src/a", "file:b"}
	c06Patterns = []string{"git:refs/heads/main", "git:refs/heads/*", "git:*", "file:src/*", "file:*", "*"}
)

func c06Label(file string, idx int) (int, []string) {
	fi := 0
	for i, f := range c06Files {
		if f == file {
			fi = i
		}
	}
	sets := [][]string{{"P0"}, {"P0", "P1"}, {"P1", "P2"}}
	return 1 + idx%2, sets[(fi+idx)%3]
}

func (g c06Graph) String() string {
	parts := []string{}
	for _, f := range c06Files {
		rules, ok := g[f]
		if !ok {
			continue
		}
		rs := []string{}
		for _, r := range rules {
			t := ""
			if r.Terminating {
				t = "!"
			}
			rs = append(rs, fmt.Sprintf("%s%s[%s]", r.Name, t, r.Pattern))
		}
		parts = append(parts, f+":{"+strings.Join(rs, " ")+"}")
	}
	return strings.Join(parts, " ")
}

// c06Reference is the documented pre-order walk. cutAlways: a matching
// terminating rule with a delegated file cuts the rest of its file even when
// that file had been entered before (the statement does not condition the cut
// on first entry); otherwise only when it opens the file.
func c06Reference(g c06Graph, path string, cutAlways bool) []string {
	seen := map[string]bool{"targets": true}
	var walk func(file string) []string
	walk = func(file string) []string {
		out := []string{}
		for i, r := range g[file] {
			if !refver.Match(r.Pattern, path) {
				continue
			}
			out = append(out, c06RuleID(file, i, r))
			_, has := g[r.Name]
			if !has {
				continue
			}
			entered := false
			if !seen[r.Name] {
				seen[r.Name] = true
				entered = true
				out = append(out, walk(r.Name)...)
			}
			if r.Terminating && (entered || cutAlways) {
				break
			}
		}
		return out
	}
	return walk("targets")
}

func c06RuleID(file string, idx int, r c06Rule) string {
	thr, ps := c06Label(file, idx)
	ids := []string{}
	for _, p := range ps {
		ids = append(ids, keys.Get(p).KeyID[:12])
	}
	sort.Strings(ids)
	return fmt.Sprintf("%s/%d/%s", r.Name, thr, strings.Join(ids, "+"))
}

func c06Build(g c06Graph) *policy.State {
	var targets *sslibdsse.Envelope
	delegs := map[string]*sslibdsse.Envelope{}
	for file, rules := range g {
		specs := []world.RuleSpec{}
		for i, r := range rules {
			thr, ps := c06Label(file, i)
			ids := []string{}
			for _, p := range ps {
				ids = append(ids, keys.Get(p).KeyID)
			}
			specs = append(specs, world.RuleSpec{Name: r.Name, Patterns: []string{r.Pattern}, Principals: ids, Threshold: thr, Terminating: r.Terminating})
		}
		md := world.Targets(1, []tuf.Principal{keys.Get("P0").TUFKey(), keys.Get("P1").TUFKey(), keys.Get("P2").TUFKey()}, specs)
		env := world.Envelope(md)
		if file == "targets" {
			targets = env
		} else {
			delegs[file] = env
		}
	}
	root := world.Root(1, []tuf.Principal{keys.Get("R0").TUFKey()}, 1, []tuf.Principal{keys.Get("T0").TUFKey()}, 1)
	return world.State(world.Envelope(root), targets, delegs)
}

func c06Impl(st *policy.State, path string) ([]string, error, bool) {
	type res struct {
		ids []string
		err error
	}
	ch := make(chan res, 1)
	go func() {
		defer func() {
			// a crash of the walk is reported like any other wrong answer
			if r := recover(); r != nil {
				ch <- res{nil, fmt.Errorf("c06: the walk panicked: %v", r)}
			}
		}()
		vs, err := st.FindVerifiersForPath(path)
		ids := []string{}
		for _, v := range vs {
			pids := v.TrustedPrincipalIDs().Contents()
			for i := range pids {
				pids[i] = pids[i][:12]
			}
			sort.Strings(pids)
			ids = append(ids, fmt.Sprintf("%s/%d/%s", v.Name(), v.Threshold(), strings.Join(pids, "+")))
		}
		ch <- res{ids, err}
	}()
	select {
	case r := <-ch:
		return r.ids, r.err, false
	case <-time.After(20 * time.Second):
		return nil, nil, true
	}
}

func c06SortedEq(a, b []string) bool {
	if len(a) != len(b) {
		return false
	}
	x := append([]string(nil), a...)
	y := append([]string(nil), b...)
	sort.Strings(x)
	sort.Strings(y)
	for i := range x {
		if x[i] != y[i] {
			return false
		}
	}
	return true
}

func c06Shape(g c06Graph) string {
	// cyclic? diamond?
	indeg := map[string]int{}
	for _, rules := range g {
		for _, r := range rules {
			if _, ok := g[r.Name]; ok {
				indeg[r.Name]++
			}
		}
	}
	diamond := false
	for _, n := range indeg {
		if n > 1 {
			diamond = true
		}
	}
	cyc := false
	var visit func(f string, stack map[string]bool)
	visit = func(f string, stack map[string]bool) {
		if stack[f] {
			cyc = true
			return
		}
		stack[f] = true
		for _, r := range g[f] {
			if _, ok := g[r.Name]; ok && !cyc {
				visit(r.Name, stack)
			}
		}
		delete(stack, f)
	}
	visit("targets", map[string]bool{})
	switch {
	case cyc:
		return "cyclic"
	case diamond:
		return "shared-file"
	default:
		return "tree"
	}
}

func c06Check(g c06Graph, col *evid.Collector) {
	st := c06Build(g)
	shape := c06Shape(g)
	first := map[string][]string{}
	order := append(append([]string(nil), c06Paths...), c06Paths[4], c06Paths[3], c06Paths[2], c06Paths[1], c06Paths[0])
	for _, path := range order {
		got, err, hung := c06Impl(st, path)
		col.Inc("evaluations")
		if hung {
			col.Violation("C06:walk-does-not-terminate:"+shape, fmt.Sprintf("%s path %s: FindVerifiersForPath did not return", g, path), g)
			return
		}
		if err != nil {
			col.Violation("C06:walk-error:"+shape, fmt.Sprintf("%s path %s: %v", g, path, err), g)
			return
		}
		if prev, ok := first[path]; ok {
			// memo: asking again (in another order) must give the same answer
			if strings.Join(prev, ",") != strings.Join(got, ",") {
				col.Violation("C06:memo-changes-answer:"+shape, fmt.Sprintf("%s path %s: first %v, later %v", g, path, prev, got), g)
			}
			continue
		}
		first[path] = got
		r1 := c06Reference(g, path, true)
		r2 := c06Reference(g, path, false)
		if len(r1) == 0 {
			col.Inc("unprotected")
		} else {
			col.Inc("protected")
		}
		e1, e2 := c06SortedEq(got, r1), c06SortedEq(got, r2)
		col.Class("%s/consulted=%d", shape, len(r1))
		switch {
		case e1 && e2:
		case e1 || e2:
			col.Inc("unspecified_not_judged") // terminating rule whose file was already entered
		default:
			kind := "different-rules-consulted"
			if len(got) == 0 && len(r1) > 0 {
				kind = "reported-unprotected-although-a-reachable-rule-matches"
			} else if len(got) > 0 && len(r1) == 0 {
				kind = "reported-protected-although-no-reachable-rule-matches"
			} else if len(got) > len(r1) {
				kind = "extra-rules-consulted"
			} else if len(got) < len(r1) {
				kind = "rules-missing"
			}
			col.Violation("C06:"+kind+":"+shape, fmt.Sprintf("%s path %s: implementation consulted %v, documented walk %v", g, path, got, r1), g)
		}
	}
}

func TestC06(t *testing.T) {
	col := evid.New("C06")
	defer func() {
		if err := col.Write(); err != nil {
			t.Fatal(err)
		}
	}()
	thorough := evid.Thorough()
	maxRules := map[string]int{"targets": 2, "A": 1, "B": 1, "C": 0}
	names := []string{"A", "B", "leaf"}
	patterns := []string{"git:refs/heads/main", "git:*", "file:*", "*"}
	if thorough {
		maxRules = map[string]int{"targets": 2, "A": 2, "B": 1, "C": 1}
		names = []string{"A", "B", "C", "leaf"}
		patterns = c06Patterns
	}
	col.Bound("max_rules_per_file", maxRules)
	col.Rule("every delegation graph over rule files {targets,A,B%s} with up to %v rules per file, each rule = (name in %v, pattern in %v, terminating 0/1) with a position-determined distinct (threshold, principal set) label; files are generated only when some rule of a reachable file names them (an unreferenced file cannot influence the walk); cycles, self-delegation and shared (diamond) files arise naturally; for every graph every path of %v is asked twice in two orders (memo) and the multiset of (name, threshold, principals) of the returned verifiers is compared with the recursive pre-order reference. A class is (graph shape, number of consulted rules)", map[bool]string{true: ",C", false: ""}[thorough], maxRules, names, patterns, c06Paths)
	col.Assume("graphs are given to FindVerifiersForPath as policy.State values built from envelopes (LoadStateFromCommit rejects duplicate rule names, so cyclic/shared shapes cannot be loaded from a commit); a terminating rule whose delegated file had already been entered is unspecified by the statement and not judged (counted)")

	if rf := evid.ReplayFile(); rf != "" {
		var g c06Graph
		if err := evid.LoadReplay(rf, &g); err != nil {
			col.Fail(err.Error())
			return
		}
		c06Check(g, col)
		return
	}

	variants := []c06Rule{}
	for _, n := range names {
		for _, p := range patterns {
			for _, term := range []bool{false, true} {
				variants = append(variants, c06Rule{Name: n, Pattern: p, Terminating: term})
			}
		}
	}
	// all rule lists of length <= k
	lists := func(k int) [][]c06Rule {
		out := [][]c06Rule{{}}
		cur := [][]c06Rule{{}}
		for i := 0; i < k; i++ {
			next := [][]c06Rule{}
			for _, l := range cur {
				for _, v := range variants {
					next = append(next, append(append([]c06Rule(nil), l...), v))
				}
			}
			out = append(out, next...)
			cur = next
		}
		return out
	}
	fileLists := map[string][][]c06Rule{}
	for _, f := range c06Files {
		fileLists[f] = lists(maxRules[f])
	}
	item := 0
	var gen func(g c06Graph, pending []string)
	gen = func(g c06Graph, pending []string) {
		if col.Expired() {
			return
		}
		// find the next referenced-but-undefined file
		next := ""
		for _, f := range c06Files[1:] {
			if _, defined := g[f]; defined {
				continue
			}
			for _, rules := range g {
				for _, r := range rules {
					if r.Name == f {
						next = f
					}
				}
			}
			if next != "" {
				break
			}
		}
		if next == "" {
			col.Inc("graphs")
			c06Check(g, col)
			if col.NumViolations() == 0 && len(g) >= 3 {
				col.Sample(g.String())
			}
			return
		}
		for _, l := range fileLists[next] {
			g[next] = l
			gen(g, nil)
		}
		delete(g, next)
	}
	for _, tl := range fileLists["targets"] {
		item++
		if !evid.Mine(item) {
			continue
		}
		gen(c06Graph{"targets": tl}, nil)
	}
}
