package checks

import (
	"fmt"
	"strings"
	"testing"

	"github.com/gittuf/gittuf/internal/policy"
	"github.com/gittuf/gittuf/pkg/rsl"
	"github.com/gittuf/gittuf/verif/evid"
	"github.com/gittuf/gittuf/verif/hist"
	"github.com/gittuf/gittuf/verif/keys"
	"github.com/gittuf/gittuf/verif/memstore"
	"github.com/gittuf/gittuf/verif/refver"
)

// C09 — exhaustive enumeration of attestation trees written DIRECTLY (any
// statement at any storage path with any signer set), crossed with entry
// signers, thresholds, app trust and before/after placement; verdict of the
// real verifier for the entry under test vs the reference credit function.

type c09Change struct{ ref, from, to string }

type c09AuthV struct {
	Name    string
	Stmt    string // "", X, Y1 (other ref), Y2 (other from), Y3 (other tree)
	Stored  string // X or own
	Signers []string
	V01     bool
}

type c09ApprV struct {
	Name      string
	Stmt      string // "", X, Y3
	Stored    string
	StoredApp string
	Approvers []string
	Dismissed []string
	Signer    string
}

type c09Case struct {
	Threshold int      `json:"threshold"`
	Trust     string   `json:"app_trust"`
	Auth      c09AuthV `json:"auth"`
	Appr      c09ApprV `json:"approval"`
	Signer    string   `json:"entry_signer"`
	After     bool     `json:"attestation_after_entry"`
	Tag       bool     `json:"tag"`
}

func c09Policy(threshold int, trust string) *hist.PolicySpec {
	p := stdPolicy(fmt.Sprintf("thr%d/%s", threshold, trust), map[string]hist.FileSpec{"targets": {Rules: []hist.RuleSpec{
		{Name: "protect-main", Patterns: []string{"git:" + refMain}, Principals: []string{"P0", "P1", "P2"}, Threshold: threshold},
		{Name: "protect-tags", Patterns: []string{"git:refs/tags/*"}, Principals: []string{"P0", "P1", "P2"}, Threshold: threshold},
	}}})
	p.Principals = map[string]hist.PrincipalSpec{
		"P1": {ID: "alice-person", Keys: []string{"P1"}, Identities: map[string]string{"APP": "alice"}},
		"P2": {ID: "bob-person", Keys: []string{"P2"}, Identities: map[string]string{"APP": "bob"}},
	}
	switch trust {
	case "trusted":
		p.Apps = []hist.AppSpec{{Name: "APP", Key: "APPKEY", Trusted: true}}
	case "untrusted":
		p.Apps = []hist.AppSpec{{Name: "APP", Key: "APPKEY", Trusted: false}}
	case "two-apps":
		// a trusted app and a second, declared but untrusted one with its
		// own key: what the second one vouches for must not be counted, even
		// though the approvers' identities are known through the first
		p.Apps = []hist.AppSpec{{Name: "APP", Key: "APPKEY", Trusted: true}, {Name: "APP2", Key: "APP2KEY", Trusted: false}}
	}
	return p
}

func c09Auths(thorough bool) []c09AuthV {
	out := []c09AuthV{{Name: "none"}}
	signerSets := [][]string{{}, {"P1"}, {"P2"}, {"P1", "P2"}, {"U"}, {"P0"}, {"P1", "U"}}
	for _, stmt := range []string{"X", "Y1", "Y2", "Y3"} {
		for _, stored := range []string{"X", "own"} {
			if stmt == "X" && stored == "own" {
				continue
			}
			for _, ss := range signerSets {
				out = append(out, c09AuthV{Name: fmt.Sprintf("auth(%s@%s,by=%s)", stmt, stored, strings.Join(ss, "+")), Stmt: stmt, Stored: stored, Signers: ss})
			}
		}
	}
	out = append(out, c09AuthV{Name: "auth-v01(X@X,by=P1+P2)", Stmt: "X", Stored: "X", Signers: []string{"P1", "P2"}, V01: true},
		c09AuthV{Name: "auth-v01(Y3@X,by=P1+P2)", Stmt: "Y3", Stored: "X", Signers: []string{"P1", "P2"}, V01: true})
	return out
}

func c09Apprs(thorough bool) []c09ApprV {
	out := []c09ApprV{{Name: "none"}}
	for _, ap := range [][]string{{"alice"}, {"bob"}, {"alice", "bob"}, {"stranger"}} {
		for _, dis := range [][]string{{}, {"alice"}} {
			for _, s := range []string{"APPKEY", "U"} {
				out = append(out, c09ApprV{Name: fmt.Sprintf("appr(X@X,approvers=%s,dismissed=%s,by=%s)", strings.Join(ap, "+"), strings.Join(dis, "+"), s), Stmt: "X", Stored: "X", StoredApp: "APP", Approvers: ap, Dismissed: dis, Signer: s})
			}
		}
	}
	out = append(out,
		c09ApprV{Name: "appr(Y3@X,approvers=alice+bob,by=APPKEY)", Stmt: "Y3", Stored: "X", StoredApp: "APP", Approvers: []string{"alice", "bob"}, Signer: "APPKEY"},
		c09ApprV{Name: "appr(Y2@X,approvers=alice+bob,by=APPKEY)", Stmt: "Y2", Stored: "X", StoredApp: "APP", Approvers: []string{"alice", "bob"}, Signer: "APPKEY"},
		c09ApprV{Name: "appr(X@Y3,approvers=alice+bob,by=APPKEY)", Stmt: "X", Stored: "Y3", StoredApp: "APP", Approvers: []string{"alice", "bob"}, Signer: "APPKEY"},
		c09ApprV{Name: "appr(X@X,app=OTHER,approvers=alice+bob,by=APPKEY)", Stmt: "X", Stored: "X", StoredApp: "OTHER", Approvers: []string{"alice", "bob"}, Signer: "APPKEY"},
		c09ApprV{Name: "appr(X@X,app=APP2,approvers=alice+bob,by=APP2KEY)", Stmt: "X", Stored: "X", StoredApp: "APP2", Approvers: []string{"alice", "bob"}, Signer: "APP2KEY"},
		c09ApprV{Name: "appr(X@X,app=APP2,approvers=alice,by=APP2KEY)", Stmt: "X", Stored: "X", StoredApp: "APP2", Approvers: []string{"alice"}, Signer: "APP2KEY"},
	)
	return out
}

func c09World(ms *memstore.Store) *hist.World {
	w := c01World(ms)
	w.AddTag(ms, "tagA", "v1", "c1", "P0")
	return w
}

func c09Run(cs c09Case, col *evid.Collector) {
	ms := memstore.New()
	w := c09World(ms)
	// the base entry is recorded under a threshold-1 variant of the policy so
	// that it is valid by itself; the policy under test takes effect after it
	h := hist.New(ms, w, []*hist.PolicySpec{c09Policy(1, cs.Trust), c09Policy(cs.Threshold, cs.Trust)})
	must(h.Apply(hist.Event{Kind: "policy", Policy: 0}))
	must(h.Apply(hist.Event{Kind: "push", Ref: refMain, Commit: "c0", Signer: "P0"}))
	must(h.Apply(hist.Event{Kind: "policy", Policy: 1}))
	ref, commit := refMain, "c1"
	if cs.Tag {
		ref, commit = refTag, "tagA"
	}
	from := refver.ZeroID
	if !cs.Tag {
		from = w.ID("c0")
	}
	X := c09Change{ref, from, w.ApprovalTo(commit)}
	changes := map[string]c09Change{
		"X":  X,
		"Y1": {refFeat, X.from, X.to},
		"Y2": {ref, w.ID("c2"), X.to},
		"Y3": {ref, X.from, w.Tree("c2")},
	}
	place := func(stmt, stored string) (c09Change, c09Change) {
		s := changes[stmt]
		at := s
		if stored != "own" {
			at = changes[stored]
		}
		return s, at
	}
	addAtt := func() {
		any := false
		if cs.Auth.Stmt != "" {
			s, at := place(cs.Auth.Stmt, cs.Auth.Stored)
			ids := []string{}
			for _, k := range cs.Auth.Signers {
				ids = append(ids, keyID(k))
			}
			must(h.AddAuthV(refver.Auth{StoredRef: at.ref, StoredFrom: at.from, StoredTo: at.to, Ref: s.ref, From: s.from, To: s.to, Signers: ids}, cs.Auth.Signers, cs.Tag && !cs.Auth.V01, cs.Auth.V01))
			any = true
		}
		if cs.Appr.Stmt != "" {
			s, at := place(cs.Appr.Stmt, cs.Appr.Stored)
			must(h.AddApproval(refver.Approval{StoredApp: cs.Appr.StoredApp, StoredRef: at.ref, StoredFrom: at.from, StoredTo: at.to, Ref: s.ref, From: s.from, To: s.to, Approvers: cs.Appr.Approvers, Dismissed: cs.Appr.Dismissed, Signers: []string{keyID(cs.Appr.Signer)}}, []string{cs.Appr.Signer}))
			any = true
		}
		if any {
			must(h.CommitAttestations())
		}
	}
	if !cs.After {
		addAtt()
	}
	must(h.Apply(hist.Event{Kind: "push", Ref: ref, Commit: commit, Signer: cs.Signer}))
	if cs.After {
		addAtt()
	}
	rsl.ResetCacheForVerif()
	_, err := policy.NewPolicyVerifier(ms).VerifyRefFull(world_ctx, ref)
	verdict, _ := h.A.Full(ref)
	col.Inc("evaluations")
	ec := e1ErrClass(err)
	if err == nil {
		col.Inc("impl_accepts")
	} else {
		col.Inc("impl_rejects")
	}
	if verdict.OK {
		col.Inc("oracle_accepts")
	}
	authClass, apprClass := "none", "none"
	if cs.Auth.Stmt != "" {
		authClass = cs.Auth.Stmt + "@" + cs.Auth.Stored
	}
	if cs.Appr.Stmt != "" {
		apprClass = cs.Appr.Stmt + "@" + cs.Appr.Stored + "/" + cs.Appr.StoredApp
	}
	col.Class("thr%d/%s/auth=%s/appr=%s/after=%v/impl=%v/oracle=%v", cs.Threshold, cs.Trust, authClass, apprClass, cs.After, err == nil, verdict.OK)
	desc := fmt.Sprintf("threshold %d, app %s, %s, %s, entry signed by %q, attestation %s the entry, tag=%v: impl=%s oracle=%s", cs.Threshold, cs.Trust, cs.Auth.Name, cs.Appr.Name, cs.Signer, map[bool]string{true: "AFTER", false: "before"}[cs.After], cs.Tag, ec, verdict)
	if err == nil && !verdict.OK {
		cause := "unknown"
		switch {
		case cs.After:
			cause = "attestation-recorded-after-the-entry-counted"
		case cs.Appr.StoredApp == "APP2":
			cause = "approval-from-a-second-untrusted-app-counted"
		case cs.Appr.Stmt != "" && (cs.Trust == "trusted" || cs.Trust == "two-apps") && cs.Appr.Signer == "APPKEY" && cs.Appr.StoredApp == "APP" && cs.Appr.Stored == "X" && cs.Appr.Stmt != "X":
			cause = "code-review-approval-for-another-change-counted:filed-under-the-lookup-path"
		case cs.Auth.Stmt != "" && cs.Auth.Stored == "X" && cs.Auth.Stmt != "X":
			cause = "authorization-for-another-change-counted:filed-under-the-lookup-path"
		case cs.Appr.Stmt != "" && cs.Appr.Signer == "U":
			cause = "approval-not-signed-by-app-key-counted"
		case cs.Appr.Stmt != "" && cs.Trust != "trusted":
			cause = "approval-from-untrusted-app-counted"
		case cs.Appr.StoredApp == "OTHER":
			cause = "approval-of-another-app-counted"
		}
		col.Violation("C09:counted-too-many:"+cause, desc, cs)
		return
	}
	// completeness only when nothing invalid sits at the lookup path
	// (an authorization envelope without any signature at the lookup path makes
	// envelope verification itself fail - "no signature found" - which is a
	// rejection for a reason the statement does not speak about)
	clean := (cs.Auth.Stmt == "" || (cs.Auth.Stmt == "X" && cs.Auth.Stored == "X" && len(cs.Auth.Signers) > 0) || cs.Auth.Stored == "own") &&
		(cs.Appr.Stmt == "" || (cs.Appr.Stmt == "X" && cs.Appr.Stored == "X" && cs.Appr.Signer == "APPKEY") || (cs.Trust != "trusted" && cs.Trust != "two-apps") || cs.Appr.StoredApp != "APP")
	if err != nil && verdict.OK && clean {
		col.Violation("C09:valid-approvals-not-counted:"+ec, desc+" ("+err.Error()+")", cs)
	}
}

func keyID(name string) string {
	if name == "" {
		return ""
	}
	return keysGet(name)
}

func TestC09(t *testing.T) {
	col := evid.New("C09")
	defer func() {
		if err := col.Write(); err != nil {
			t.Fatal(err)
		}
	}()
	thorough := evid.Thorough()
	col.Rule("full product of {threshold 2,3} x {app trusted, untrusted, absent, a trusted app plus a second declared but untrusted app with its own key} x {no authorization | v0.2 statement for the change X or a decoy (other ref / other prior state / other tree) stored at X's path or at its own path, signed by 7 signer sets incl. untrusted and non-rule keys | two v0.1 statements} x {no approval | approval for X at X with approvers {alice},{bob},{alice,bob},{stranger} x dismissed {},{alice} x signed by app key / untrusted key | approval for a decoy filed under X | approval for X filed under a decoy | filed under another app name | filed under the second, untrusted app and signed with that app's key} x entry signer {P0,P1,unknown,none} x attestation recorded before/after the entry (thorough: also for a tag); each case is a 4-5 entry history built on the real store with the attestation tree written directly (bypassing the validating setters) and verified with VerifyRefFull; oracle = reference credit function (exact change, once per principal, only the approvers list counted - a dismissed approver is one the writer removed from it -, only attestation state before the entry). A class is (threshold, trust, statement/storage classes, placement, outcomes)")
	col.Assume("GitHub approvals are represented by their attestation blobs (no network); v0.1 statements only in two representative variants; false rejections caused by an invalid blob sitting at the lookup path are not judged (the statement says what counts, not that such histories verify)")
	if rf := evid.ReplayFile(); rf != "" {
		var cs c09Case
		if err := evid.LoadReplay(rf, &cs); err != nil {
			col.Fail(err.Error())
			return
		}
		c09Run(cs, col)
		return
	}
	item := 0
	tags := []bool{false}
	if thorough {
		tags = []bool{false, true}
	}
	for _, tag := range tags {
		for _, thr := range []int{2, 3} {
			for _, trust := range []string{"trusted", "untrusted", "absent", "two-apps"} {
				for _, au := range c09Auths(thorough) {
					for _, ap := range c09Apprs(thorough) {
						if ap.StoredApp == "APP2" && trust != "two-apps" {
							continue // the second app is only declared in the two-apps policies
						}
						if ap.Stmt != "" && trust == "two-apps" && ap.StoredApp != "APP2" && !(ap.Stmt == "X" && ap.Stored == "X" && len(ap.Dismissed) == 0 && ap.Signer == "APPKEY") {
							continue // two apps: approvals of the untrusted one, and the plain ones of the trusted one
						}
						if ap.Stmt != "" && trust != "trusted" && trust != "two-apps" && !(ap.Stmt == "X" && ap.Stored == "X" && len(ap.Approvers) == 2 && len(ap.Dismissed) == 0 && ap.Signer == "APPKEY") {
							continue // untrusted/absent app: one representative approval
						}
						if tag && ap.Stmt != "" {
							continue // approvals do not apply to tags
						}
						if !thorough && au.Stmt != "" && ap.Stmt != "" && len(au.Signers) != 1 {
							continue // quick: pair approvals only with single-signer authorizations
						}
						item++
						if !evid.Mine(item) {
							continue
						}
						if col.Expired() {
							return
						}
						for _, signer := range []string{"P0", "P1", "U", ""} {
							for _, after := range []bool{false, true} {
								if after && au.Stmt == "" && ap.Stmt == "" {
									continue
								}
								c09Run(c09Case{Threshold: thr, Trust: trust, Auth: au, Appr: ap, Signer: signer, After: after, Tag: tag}, col)
							}
						}
					}
				}
			}
		}
	}
	col.Sample(map[string]any{"example": "threshold 2, app trusted, auth(Y3@X,by=P1+P2), appr(X@X,approvers=alice,by=APPKEY), entry signed by P0, attestation before"})
}

func keysGet(name string) string { return keys.Get(name).KeyID }
