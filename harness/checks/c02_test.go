package checks

import (
	"fmt"
	"testing"

	"github.com/gittuf/gittuf/internal/policy"
	"github.com/gittuf/gittuf/verif/evid"
	"github.com/gittuf/gittuf/verif/hist"
	"github.com/gittuf/gittuf/verif/refver"
)

// C02 — chain of trust: the E1 explorer whose alphabet is a menu of successor
// policy states (root rotations signed by every subset of old/new keys,
// threshold raises, forged / unsigned / legitimate rule files, delegated files
// signed correctly / by an untrusted key / dangling, version rollbacks, file
// removal) interleaved with pushes by authorised and unauthorised keys.

func c02Policies() []*hist.PolicySpec {
	mk := func(name string, rootKeys []string, rootThr int, rootSigners []string, files map[string]hist.FileSpec) *hist.PolicySpec {
		return &hist.PolicySpec{Name: name, RootKeys: rootKeys, RootThreshold: rootThr, RootSigners: rootSigners, TargetsKeys: []string{"T0"}, TargetsThreshold: 1, Files: files}
	}
	tg := func(principals []string, signers []string) map[string]hist.FileSpec {
		return map[string]hist.FileSpec{"targets": {Rules: []hist.RuleSpec{mainRule(principals, 1)}, Signers: signers}}
	}
	r0 := []string{"R0"}
	ps := []*hist.PolicySpec{
		mk("base", r0, 1, r0, tg([]string{"P0"}, []string{"T0"})),                                                // 0
		mk("rotate-signed-old", []string{"R1"}, 1, []string{"R0"}, tg([]string{"P0"}, []string{"T0"})),           // 1
		mk("rotate-signed-new", []string{"R1"}, 1, []string{"R1"}, tg([]string{"P0"}, []string{"T0"})),           // 2
		mk("rotate-signed-both", []string{"R1"}, 1, []string{"R0", "R1"}, tg([]string{"P0"}, []string{"T0"})),    // 3
		mk("rotate-unsigned", []string{"R1"}, 1, nil, tg([]string{"P0"}, []string{"T0"})),                        // 4
		mk("thr2-signed-one", []string{"R0", "R1"}, 2, []string{"R0"}, tg([]string{"P0"}, []string{"T0"})),       // 5
		mk("thr2-signed-two", []string{"R0", "R1"}, 2, []string{"R0", "R1"}, tg([]string{"P0"}, []string{"T0"})), // 6
		mk("forged-targets", r0, 1, r0, tg([]string{"U"}, []string{"U"})),                                        // 7
		mk("unsigned-targets", r0, 1, r0, tg([]string{"U"}, []string{})),                                         // 8
		mk("legit-change", r0, 1, r0, tg([]string{"P1"}, []string{"T0"})),                                        // 9
		mk("deleg-ok", r0, 1, r0, map[string]hist.FileSpec{ // 10
			"targets":      {Rules: []hist.RuleSpec{mainRule([]string{"P0"}, 1)}, Signers: []string{"T0"}},
			"protect-main": {Rules: []hist.RuleSpec{{Name: "inner-main", Patterns: []string{"git:" + refMain}, Principals: []string{"P2"}, Threshold: 1}}, Signers: []string{"P0"}},
		}),
		mk("deleg-forged", r0, 1, r0, map[string]hist.FileSpec{ // 11
			"targets":      {Rules: []hist.RuleSpec{mainRule([]string{"P0"}, 1)}, Signers: []string{"T0"}},
			"protect-main": {Rules: []hist.RuleSpec{{Name: "inner-main", Patterns: []string{"git:" + refMain}, Principals: []string{"U"}, Threshold: 1}}, Signers: []string{"U"}},
		}),
		mk("dangling", r0, 1, r0, map[string]hist.FileSpec{ // 12
			"targets": {Rules: []hist.RuleSpec{mainRule([]string{"P0"}, 1)}, Signers: []string{"T0"}},
			"orphan":  {Rules: []hist.RuleSpec{{Name: "inner-main", Patterns: []string{"git:" + refMain}, Principals: []string{"U"}, Threshold: 1}}, Signers: []string{"U"}},
		}),
	}
	lowRoot := mk("root-version-1", r0, 1, r0, tg([]string{"P0"}, []string{"T0"})) // 13
	lowRoot.RootVersion = 1
	ps = append(ps, lowRoot)
	lowD := mk("deleg-version-1", r0, 1, r0, map[string]hist.FileSpec{ // 14
		"targets":      {Rules: []hist.RuleSpec{mainRule([]string{"P0"}, 1)}, Signers: []string{"T0"}},
		"protect-main": {Rules: []hist.RuleSpec{{Name: "inner-main", Patterns: []string{"git:" + refMain}, Principals: []string{"P2"}, Threshold: 1}}, Signers: []string{"P0"}, Version: 1},
	})
	ps = append(ps, lowD)
	lowT := mk("targets-version-1", r0, 1, r0, map[string]hist.FileSpec{"targets": {Rules: []hist.RuleSpec{mainRule([]string{"P0"}, 1)}, Signers: []string{"T0"}, Version: 1}}) // 14
	ps = append(ps, lowT)
	// the root envelope stays byte-identical to the base state's (root
	// version pinned, same keys, deterministic signature) while the rule files
	// move: what ordinary use produces, since only edited files are re-signed.
	// With "root-version-1" (13: same root, rule files at the publication
	// counter) these give rule-file rollback and a disappearing delegated file
	// under an unchanged root.
	sameRootLowT := mk("same-root-targets-version-1", r0, 1, r0, map[string]hist.FileSpec{"targets": {Rules: []hist.RuleSpec{mainRule([]string{"P0"}, 1)}, Signers: []string{"T0"}, Version: 1}}) // 16
	sameRootLowT.RootVersion = 1
	ps = append(ps, sameRootLowT)
	sameRootDeleg := mk("same-root-deleg-ok", r0, 1, r0, map[string]hist.FileSpec{ // 17
		"targets":      {Rules: []hist.RuleSpec{mainRule([]string{"P0"}, 1)}, Signers: []string{"T0"}},
		"protect-main": {Rules: []hist.RuleSpec{{Name: "inner-main", Patterns: []string{"git:" + refMain}, Principals: []string{"P2"}, Threshold: 1}}, Signers: []string{"P0"}},
	})
	sameRootDeleg.RootVersion = 1
	ps = append(ps, sameRootDeleg)
	return ps
}

func c02Menu(h *hist.Hist, depth int) []hist.Event {
	evs := []hist.Event{}
	for i := range h.Policies {
		evs = append(evs, hist.Event{Kind: "policy", Policy: i})
	}
	for _, s := range []string{"P0", "U", "P1", "P2"} {
		evs = append(evs, hist.Event{Kind: "push", Ref: refMain, Commit: "c1", Signer: s})
	}
	return evs
}

// c02Judge adds LoadCurrentState and VerifyMergeable to the standard modes.
func c02Judge(sc *e1Scenario, h *hist.Hist, cps map[string][]int, col *evid.Collector) map[string][]int {
	out := e1Judge(sc, h, cps, col)
	// chain validity of the latest policy state
	lastPol := -1
	chainOK := true
	for i, e := range h.A.Entries {
		if e.Kind == refver.PolicyEntry {
			lastPol = i
			if !e.Policy.RootValid {
				chainOK = false
			}
		}
	}
	if lastPol < 0 {
		return out
	}
	want := chainOK && h.A.Entries[lastPol].Policy.SelfValid
	rp := e1Replay{Scenario: sc.Name, Events: h.Events, Mode: "load-current-state"}
	_, err := policy.LoadCurrentState(world_ctx, h.MS, policy.PolicyRef)
	col.Inc("evaluations")
	col.Class("%s/load/impl=%s/oracle=%v", sc.Name, e1ErrClass(err), want)
	if err == nil && !want {
		col.Violation("C02:false-accept:load-current-state", fmt.Sprintf("[%s] LoadCurrentState accepts a policy chain that breaks C02's conditions", h.Describe()), rp)
	} else if err != nil && want {
		col.Violation("C02:false-reject:load-current-state:"+e1ErrClass(err), fmt.Sprintf("[%s] LoadCurrentState rejects a valid chain: %v", h.Describe(), err), rp)
	}
	// mergeability depends on the latest policy state
	if h.A.LastIndex(refFeat) >= 0 {
		_, err := policy.NewPolicyVerifier(h.MS).VerifyMergeable(world_ctx, refMain, refFeat)
		col.Inc("evaluations")
		col.Class("%s/mergeable/impl=%s/oracle-chain=%v", sc.Name, e1ErrClass(err), want)
		rp.Mode = "mergeable"
		if err == nil && !want {
			col.Violation("C02:false-accept:mergeable", fmt.Sprintf("[%s] VerifyMergeable succeeds although the latest policy state breaks C02's conditions", h.Describe()), rp)
		}
	}
	return out
}

// ---- root-only start: the repository has a root of trust but no rule file
// yet. The successor checks (root signed by the previous root's threshold, no
// version rollback) must hold for such states too.

func c02RootOnlyPolicies() []*hist.PolicySpec {
	ro := func(name string, rootKeys []string, thr int, signers []string, version uint64) *hist.PolicySpec {
		return &hist.PolicySpec{Name: name, RootKeys: rootKeys, RootThreshold: thr, RootSigners: signers, RootVersion: version, TargetsKeys: []string{"T0"}, TargetsThreshold: 1, NoTargets: true}
	}
	r0 := []string{"R0"}
	withTargets := &hist.PolicySpec{Name: "first-rule-file", RootKeys: r0, RootThreshold: 1, RootSigners: r0, TargetsKeys: []string{"T0"}, TargetsThreshold: 1,
		Files: map[string]hist.FileSpec{"targets": {Rules: []hist.RuleSpec{mainRule([]string{"P0"}, 1)}, Signers: []string{"T0"}}}}
	withTargetsV1 := &hist.PolicySpec{Name: "first-rule-file-root-version-1", RootKeys: r0, RootThreshold: 1, RootSigners: r0, RootVersion: 1, TargetsKeys: []string{"T0"}, TargetsThreshold: 1,
		Files: map[string]hist.FileSpec{"targets": {Rules: []hist.RuleSpec{mainRule([]string{"P0"}, 1)}, Signers: []string{"T0"}}}}
	return []*hist.PolicySpec{
		ro("root-only", r0, 1, r0, 0),                                            // 0: version = publication counter
		ro("root-only-add-key", []string{"R0", "R1"}, 1, r0, 0),                  // 1
		ro("root-only-version-1", r0, 1, r0, 1),                                  // 2: replay of the very first root
		ro("root-only-rotated-signed-new", []string{"R1"}, 1, []string{"R1"}, 0), // 3
		withTargets,   // 4
		withTargetsV1, // 5
	}
}

func c02RootOnlyMenu(h *hist.Hist, depth int) []hist.Event {
	evs := []hist.Event{}
	for i := range h.Policies {
		evs = append(evs, hist.Event{Kind: "policy", Policy: i})
	}
	// pushes are only offered once a rule file exists (a reference recorded
	// under a root-only policy cannot be judged by either side)
	hasTargets := false
	for _, e := range h.A.Entries {
		if e.Kind == refver.PolicyEntry {
			_, hasTargets = e.Policy.Files["targets"]
		}
	}
	if hasTargets {
		for _, s := range []string{"P0", "U"} {
			evs = append(evs, hist.Event{Kind: "push", Ref: refMain, Commit: "c1", Signer: s})
		}
	}
	return evs
}

func c02Scenarios(thorough bool) []*e1Scenario {
	depth := 3
	if thorough {
		depth = 4
	}
	return []*e1Scenario{{Name: "C02/root-only-start", World: c01World, Policies: c02RootOnlyPolicies(),
		Prefix: []hist.Event{{Kind: "policy", Policy: 0}}, Menu: c02RootOnlyMenu, Depth: depth + 1, Refs: []string{refMain}, Judge: c02Judge},
		{Name: "C02/chain", World: c01World, Policies: c02Policies(),
		Prefix: []hist.Event{{Kind: "policy", Policy: 0}, {Kind: "push", Ref: refMain, Commit: "c0", Signer: "P0"}, {Kind: "push", Ref: refFeat, Commit: "c1", Signer: "P0"}},
		Menu:   c02Menu, Depth: depth, Refs: []string{refMain}, Judge: c02Judge}}
}

func TestC02(t *testing.T) {
	col := evid.New("C02")
	defer func() {
		if err := col.Write(); err != nil {
			t.Fatal(err)
		}
	}()
	scs := c02Scenarios(evid.Thorough())
	col.Bound("events_after_prefix", scs[1].Depth)
	col.Bound("events_after_root_only_prefix", scs[0].Depth)
	col.Rule("depth-first enumeration of every sequence of <= %d events after [base policy; authorised push; feature push] over {18 successor policy states: root rotated and signed by {old},{new},{old,new},{}; root threshold raised to 2 signed by 1 or 2; primary rule file forged (signed by an untrusted key, authorising it), unsigned, legitimately changed; delegated file signed as required / by an untrusted key / dangling; root, primary or delegated rule-file version lowered; the same with the root envelope kept byte-identical (root version pinned) while the primary rule file is rolled back or a delegated file added and dropped; delegated file dropped by any later state} x {push to main by the authorised, an unknown, a later-authorised and a delegated principal}; at every node full, latest-only, from-entry verification, VerifyMergeable and LoadCurrentState are compared with the chain conditions of the statement (successor root signed by the predecessor's root threshold, own rule files properly signed, nothing unreachable, no rollback, no disappearing file). A second scenario starts from a repository that has a root of trust but no rule file yet (<= %d events over root-only successors: keys added, rotated and signed by the new key only, the first root replayed = version rollback; then the first rule file, pushes): the successor conditions must hold for root-only states as well. A class is (mode, implementation error class, oracle verdict)", scs[1].Depth, scs[0].Depth)
	col.Assume("a verification depends on a policy entry if it judges an entry under it (all conditions required) or the entry precedes such a state in the chain (successor conditions required); first policy state trusted on first use")
	if e1Replayer(scs, col) {
		return
	}
	e1ExploreTiers(c02Scenarios, nil, col)
}
