package checks

import (
	"testing"

	"github.com/gittuf/gittuf/verif/evid"
	"github.com/gittuf/gittuf/verif/hist"
	"github.com/gittuf/gittuf/verif/memstore"
	"github.com/gittuf/gittuf/verif/refver"
)

// C07 — recovery: the E1 explorer with an alphabet concentrated on violations,
// skip annotations over subsets of entries, tree-same fixes and interleaved
// policy / attestation / other-reference entries.

func c07World(ms *memstore.Store) *hist.World {
	w := hist.NewWorld()
	w.AddCommit(ms, hist.CommitSpec{Name: "g0", Files: map[string]string{"a": "A"}})
	w.AddCommit(ms, hist.CommitSpec{Name: "g1", Files: map[string]string{"a": "B"}, Parents: []string{"g0"}})
	w.AddCommit(ms, hist.CommitSpec{Name: "b1", Files: map[string]string{"a": "C"}, Parents: []string{"g1"}})
	w.AddCommit(ms, hist.CommitSpec{Name: "fix1", Files: map[string]string{"a": "B"}, Parents: []string{"b1"}}) // tree-same as g1
	w.AddCommit(ms, hist.CommitSpec{Name: "fix0", Files: map[string]string{"a": "A"}, Parents: []string{"b1"}}) // tree-same as g0
	return w
}

func c07Policies() []*hist.PolicySpec {
	both := func(p string) map[string]hist.FileSpec {
		return map[string]hist.FileSpec{"targets": {Rules: []hist.RuleSpec{mainRule([]string{p}, 1), {Name: "protect-feat", Patterns: []string{"git:" + refFeat}, Principals: []string{p}, Threshold: 1}}}}
	}
	return []*hist.PolicySpec{stdPolicy("P0", both("P0")), stdPolicy("P1", both("P1"))}
}

func c07Menu(thorough bool) func(h *hist.Hist, depth int) []hist.Event {
	return func(h *hist.Hist, depth int) []hist.Event {
		evs := []hist.Event{}
		for _, c := range []string{"g1", "b1", "fix1", "fix0"} {
			for _, s := range []string{"P0", "U"} {
				evs = append(evs, hist.Event{Kind: "push", Ref: refMain, Commit: c, Signer: s})
			}
		}
		for _, s := range []string{"P0", "U"} {
			evs = append(evs, hist.Event{Kind: "push", Ref: refFeat, Commit: "g1", Signer: s})
		}
		pushes := []int{}
		for i, e := range h.A.Entries {
			if e.Kind == refver.Push {
				pushes = append(pushes, i)
			}
		}
		for a := 0; a < len(pushes); a++ {
			evs = append(evs, hist.Event{Kind: "annotate", Names: []int{pushes[a]}, Skip: true})
			for b := a + 1; b < len(pushes); b++ {
				evs = append(evs, hist.Event{Kind: "annotate", Names: []int{pushes[a], pushes[b]}, Skip: true})
				if thorough {
					for c := b + 1; c < len(pushes); c++ {
						evs = append(evs, hist.Event{Kind: "annotate", Names: []int{pushes[a], pushes[b], pushes[c]}, Skip: true})
					}
				}
			}
		}
		if len(pushes) > 0 {
			evs = append(evs, hist.Event{Kind: "annotate", Names: []int{pushes[len(pushes)-1]}, Skip: false})
		}
		evs = append(evs, hist.Event{Kind: "policy", Policy: 1}, hist.Event{Kind: "policy", Policy: 0},
			hist.Event{Kind: "approve", Ref: refFeat, Commit: "b1", Signers: []string{"U"}})
		return evs
	}
}

func c07Scenarios(thorough bool) []*e1Scenario {
	depth := 4
	if thorough {
		depth = 5
	}
	return []*e1Scenario{
		{Name: "C07/recovery", World: c07World, Policies: c07Policies(),
			Prefix: []hist.Event{{Kind: "policy", Policy: 0}, {Kind: "push", Ref: refMain, Commit: "g0", Signer: "P0"}},
			Menu:   c07Menu(thorough), Depth: depth, Refs: []string{refMain, refFeat}},
		// the incident is already in the prefix: one more event of depth for
		// what happens between a violation and its repair, and after it
		{Name: "C07/incident", World: c07World, Policies: c07Policies(),
			Prefix: []hist.Event{{Kind: "policy", Policy: 0}, {Kind: "push", Ref: refMain, Commit: "g0", Signer: "P0"}, {Kind: "push", Ref: refMain, Commit: "b1", Signer: "U"}},
			Menu:   c07Menu(thorough), Depth: depth, Refs: []string{refMain}},
	}
}

func TestC07(t *testing.T) {
	col := evid.New("C07")
	defer func() {
		if err := col.Write(); err != nil {
			t.Fatal(err)
		}
	}()
	scs := c07Scenarios(evid.Thorough())
	col.Bound("events_after_prefix", scs[0].Depth)
	col.Rule("depth-first enumeration of every sequence of <= %d events after [policy; valid push] over {push to main of a new tree / a violating tree / a tree identical to the last good state / a tree identical to an EARLIER good state, by the authorised principal or an unknown key; push to a second protected ref; skip annotations over any 1-2 (thorough: 1-3) earlier pushes, a non-skip annotation; policy entries that de-authorise / re-authorise the signer; an attestation entry}; at every node all verification modes are compared with the reference statement of the recovery rule (revoked AND a later unskipped tree-identical entry AND everything for the ref in between skipped), including the error class. A class is (mode, implementation error class, oracle verdict)", scs[0].Depth)
	col.Assume("the fix entry is judged only by the recovery conditions of the statement (not skipped, tree-identical to the last valid unskipped entry); skip annotations on policy/attestation entries are outside the alphabet")
	if e1Replayer(scs, col) {
		return
	}
	e1ExploreTiers(c07Scenarios, nil, col)
}
