package checks

import (
	"errors"
	"fmt"
	"sort"
	"strings"
	"testing"

	"github.com/gittuf/gittuf/internal/attestations"
	"github.com/gittuf/gittuf/internal/policy"
	"github.com/gittuf/gittuf/internal/tuf"
	"github.com/gittuf/gittuf/pkg/githash"
	"github.com/gittuf/gittuf/pkg/gitstore"
	"github.com/gittuf/gittuf/pkg/rsl"
	"github.com/gittuf/gittuf/verif/evid"
	"github.com/gittuf/gittuf/verif/gitback"
	"github.com/gittuf/gittuf/verif/keys"
	"github.com/gittuf/gittuf/verif/memstore"
	"github.com/gittuf/gittuf/verif/rec"
	"github.com/gittuf/gittuf/verif/world"
)

// C03 — explicit-state search over sequences of recording operations on the
// real pkg/rsl, internal/policy and internal/attestations code over memstore.
// The invariant is evaluated by an independent raw-commit walker.

type c03Op struct {
	Name string `json:"name"`
	kind string
	run  func(ms gitstore.Storer) error
	// expectation on the appended entries (oldest first) when the op succeeded
	expect func(added []world.ParsedText) string
}

type c03World struct {
	commits  [2]githash.Hash
	blob     githash.Hash
	nonRSL   githash.Hash
	unknown  githash.Hash
	policies [2]*policy.State
}

func c03BuildWorld(ms world.Backend) *c03World {
	w := &c03World{}
	t0 := world.Tree(ms, map[string]string{"a": "0"})
	t1 := world.Tree(ms, map[string]string{"a": "1"})
	w.commits[0] = world.Commit(ms, t0, nil, "c0", nil)
	w.commits[1] = world.Commit(ms, t1, []githash.Hash{w.commits[0]}, "c1", nil)
	w.nonRSL = world.Commit(ms, t0, nil, "not an rsl entry", nil)
	w.blob, _ = ms.WriteBlob([]byte("blob"))
	w.unknown, _ = githash.NewHash("00000000000000000000000000000000deadbeef")
	r0 := keys.Get("R0")
	t0k := keys.Get("T0")
	p0 := keys.Get("P0")
	for v := 0; v < 2; v++ {
		root := world.Root(uint64(v+1), []tuf.Principal{r0.TUFKey()}, 1, []tuf.Principal{t0k.TUFKey()}, 1)
		tg := world.Targets(uint64(v+1), []tuf.Principal{p0.TUFKey()}, []world.RuleSpec{{Name: "protect-main", Patterns: []string{"git:refs/heads/main"}, Principals: []string{p0.KeyID}, Threshold: 1}})
		w.policies[v] = world.State(world.Envelope(root, r0), world.Envelope(tg, t0k), nil)
	}
	return w
}

func c03Ops(ms *memstore.Store, w *c03World, thorough bool) []c03Op {
	ops := []c03Op{}
	refs := []string{"refs/heads/main", "refs/heads/feat"}
	// Legacy (unnumbered) recording is only a recording operation of a log
	// that has not started numbering yet (the property's quantifier: "a legacy
	// unnumbered log that transitions to numbering").
	legacyOK := true
	if l := world.WalkRSL(ms); len(l) > 0 && world.ParseText(l[0].Text).Number != 0 {
		legacyOK = false
	}
	for _, ref := range refs {
		for ci, c := range w.commits {
			ref, c := ref, c
			want := func(added []world.ParsedText) string {
				if len(added) != 1 || added[0].Kind != "reference" || added[0].Ref != ref || added[0].Target != c.String() {
					return "expected exactly one reference entry for the recorded ref/target"
				}
				return ""
			}
			ops = append(ops, c03Op{Name: fmt.Sprintf("record(%s,c%d)", ref, ci), kind: "one", run: func(ms gitstore.Storer) error {
				return rsl.NewReferenceEntry(ref, c).Commit(ms, false)
			}, expect: want})
			if ci == 0 && legacyOK {
				ops = append(ops, c03Op{Name: fmt.Sprintf("record-legacy(%s,c%d)", ref, ci), kind: "legacy", run: func(ms gitstore.Storer) error {
					return rsl.NewReferenceEntry(ref, c).CommitWithoutNumber(ms)
				}, expect: want})
			}
		}
	}
	// annotations
	log := world.WalkRSL(ms)
	type idset struct {
		name string
		ids  []githash.Hash
	}
	sets := []idset{
		{"nonrsl-commit", []githash.Hash{w.nonRSL}},
		{"blob", []githash.Hash{w.blob}},
		{"unknown", []githash.Hash{w.unknown}},
	}
	if len(log) > 0 {
		latest, _ := githash.NewHash(log[0].ID)
		first, _ := githash.NewHash(log[len(log)-1].ID)
		sets = append(sets, idset{"latest", []githash.Hash{latest}}, idset{"latest+unknown", []githash.Hash{latest, w.unknown}})
		// a non-entry at every position of the list (first, last, middle):
		// the check of the named ids must not depend on where the bad one is
		sets = append(sets,
			idset{"unknown+latest", []githash.Hash{w.unknown, latest}},
			idset{"blob+latest", []githash.Hash{w.blob, latest}},
			idset{"latest+nonrsl-commit", []githash.Hash{latest, w.nonRSL}},
		)
		if len(log) > 1 {
			sets = append(sets, idset{"first", []githash.Hash{first}}, idset{"latest+first", []githash.Hash{latest, first}},
				idset{"first+nonrsl-commit+latest", []githash.Hash{first, w.nonRSL, latest}})
		}
	}
	msgs := []string{""}
	if thorough {
		msgs = []string{"", "m", "x\n-----BEGIN MESSAGE-----\ny"}
	}
	for _, s := range sets {
		for _, skip := range []bool{true, false} {
			for _, m := range msgs {
				s, skip, m := s, skip, m
				if skip == false && m != "" {
					continue
				}
				if strings.Contains(s.name, "+") && s.name != "latest+first" && s.name != "latest+unknown" && (!skip || m != "") {
					// lists with a non-entry at some position are refused
					// whatever the flag and message: one variant each
					continue
				}
				ops = append(ops, c03Op{Name: fmt.Sprintf("annotate(%s,skip=%v,msg=%q)", s.name, skip, m), kind: "annot", run: func(ms gitstore.Storer) error {
					return rsl.NewAnnotationEntry(s.ids, skip, m).Commit(ms, false)
				}, expect: func(added []world.ParsedText) string {
					if len(added) != 1 || added[0].Kind != "annotation" || len(added[0].EntryIDs) != len(s.ids) {
						return "expected exactly one annotation entry naming the given ids"
					}
					return ""
				}})
			}
		}
	}
	if legacyOK && len(log) > 0 {
		latest, _ := githash.NewHash(log[0].ID)
		for _, s := range []idset{{"unknown+latest", []githash.Hash{w.unknown, latest}}, {"latest+nonrsl-commit", []githash.Hash{latest, w.nonRSL}}, {"blob+latest", []githash.Hash{w.blob, latest}}} {
			s := s
			ops = append(ops, c03Op{Name: fmt.Sprintf("annotate-legacy(%s)", s.name), kind: "annot", run: func(ms gitstore.Storer) error {
				return rsl.NewAnnotationEntry(s.ids, true, "").CommitWithoutNumber(ms)
			}, expect: func(added []world.ParsedText) string {
				if len(added) != 1 || added[0].Kind != "annotation" {
					return "expected one annotation"
				}
				return ""
			}})
		}
	}
	if legacyOK {
		ops = append(ops, c03Op{Name: "annotate-legacy(latest)", kind: "legacy", run: func(ms gitstore.Storer) error {
			if len(log) == 0 {
				return errors.New("no entry")
			}
			id, _ := githash.NewHash(log[0].ID)
			return rsl.NewAnnotationEntry([]githash.Hash{id}, true, "").CommitWithoutNumber(ms)
		}, expect: func(added []world.ParsedText) string {
			if len(added) != 1 || added[0].Kind != "annotation" {
				return "expected one annotation"
			}
			return ""
		}})
	}
	ops = append(ops, c03Op{Name: "propagate(main,c1)", kind: "one", run: func(ms gitstore.Storer) error {
		return rsl.NewPropagationEntry("refs/heads/main", w.commits[1], "https://up/stream", w.commits[0]).Commit(ms, false)
	}, expect: func(added []world.ParsedText) string {
		if len(added) != 1 || added[0].Kind != "propagation" {
			return "expected one propagation entry"
		}
		return ""
	}})
	for v := 0; v < 2; v++ {
		v := v
		ops = append(ops, c03Op{Name: fmt.Sprintf("stage(policy%d)", v), kind: "one", run: func(ms gitstore.Storer) error {
			return w.policies[v].Commit(ms, "stage", true, false)
		}, expect: func(added []world.ParsedText) string {
			if len(added) != 1 || added[0].Ref != policy.PolicyStagingRef {
				return "expected one entry for the policy-staging ref"
			}
			return ""
		}})
	}
	ops = append(ops, c03Op{Name: "apply", kind: "apply", run: func(ms gitstore.Storer) error {
		return policy.Apply(world.Ctx, ms, false)
	}, expect: func(added []world.ParsedText) string {
		if len(added) < 1 {
			return "successful Apply appended no entry"
		}
		for _, a := range added {
			if a.Kind != "reference" || (a.Ref != policy.PolicyRef && a.Ref != policy.PolicyStagingRef) {
				return "Apply appended an entry that is not for the policy/staging refs"
			}
		}
		if added[len(added)-1].Ref != policy.PolicyRef {
			return "last entry appended by Apply is not for the policy ref"
		}
		n := 0
		for _, a := range added {
			if a.Ref == policy.PolicyRef {
				n++
			}
		}
		if n != 1 {
			return "Apply recorded more than one policy entry"
		}
		return ""
	}})
	ops = append(ops, c03Op{Name: "discard", kind: "zero", run: func(ms gitstore.Storer) error {
		return policy.Discard(ms)
	}, expect: func(added []world.ParsedText) string {
		if len(added) != 0 {
			return "Discard appended entries"
		}
		return ""
	}})
	ops = append(ops, c03Op{Name: "attest", kind: "one", run: func(ms gitstore.Storer) error {
		a, err := attestations.LoadCurrentAttestations(ms)
		if err != nil {
			return err
		}
		return a.Commit(ms, "attest", true, false)
	}, expect: func(added []world.ParsedText) string {
		if len(added) != 1 || added[0].Ref != attestations.Ref {
			return "expected one entry for the attestations ref"
		}
		return ""
	}})
	for _, ref := range refs[:1] {
		ref := ref
		ops = append(ops, c03Op{Name: fmt.Sprintf("autoskip(%s)", ref), kind: "autoskip", run: func(ms gitstore.Storer) error {
			return rsl.SkipAllInvalidReferenceEntriesForRef(ms, ref, false)
		}, expect: func(added []world.ParsedText) string {
			if len(added) > 1 {
				return "automatic skip appended more than one entry"
			}
			if len(added) == 1 && (added[0].Kind != "annotation" || added[0].Skip != "true") {
				return "automatic skip appended something other than a skip annotation"
			}
			return ""
		}})
	}
	return ops
}

func c03Key(ms *memstore.Store) string {
	names := make([]string, 0, len(ms.Refs))
	for k := range ms.Refs {
		names = append(names, k)
	}
	sort.Strings(names)
	var b strings.Builder
	for _, k := range names {
		b.WriteString(k)
		b.WriteByte('=')
		b.WriteString(ms.Refs[k])
		b.WriteByte(';')
	}
	return b.String()
}

type c03Replay struct {
	Start string   `json:"start"`
	Ops   []string `json:"ops"`
}

func c03Start(name string) (*memstore.Store, *c03World) {
	ms := memstore.New()
	return ms, c03StartOn(ms, name)
}

func c03StartOn(ms world.Backend, name string) *c03World {
	w := c03BuildWorld(ms)
	switch name {
	case "empty":
	case "numbered2":
		must(rsl.NewReferenceEntry("refs/heads/main", w.commits[0]).Commit(ms, false))
		must(rsl.NewReferenceEntry("refs/heads/feat", w.commits[0]).Commit(ms, false))
	case "legacy2":
		must(rsl.NewReferenceEntry("refs/heads/main", w.commits[0]).CommitWithoutNumber(ms))
		must(rsl.NewReferenceEntry("refs/heads/feat", w.commits[0]).CommitWithoutNumber(ms))
	case "rewritten":
		// main was recorded at c1 then rewritten to the unrelated commit: gives
		// the automatic skip something to do
		must(rsl.NewReferenceEntry("refs/heads/main", w.commits[0]).Commit(ms, false))
		must(rsl.NewReferenceEntry("refs/heads/main", w.commits[1]).Commit(ms, false))
		must(rsl.NewReferenceEntry("refs/heads/main", w.nonRSL).Commit(ms, false))
	}
	return w
}

// c03Conform runs start+op on a real git repository and on a fresh memstore,
// both behind recorders, and requires identical Storer-call traces.
func c03Conform(t *testing.T, start, opName string, thorough bool) string {
	rsl.ResetCacheForVerif()
	ms := memstore.New()
	mrec := &rec.Recorder{Inner: ms}
	mw := c03StartOn(recBackend{mrec, ms}, start)
	var mop *c03Op
	for _, op := range c03Ops(ms, mw, thorough) {
		if op.Name == opName {
			op := op
			mop = &op
		}
	}
	merr := mop.run(mrec)

	rsl.ResetCacheForVerif()
	g := gitback.New(t, false)
	grec := &rec.Recorder{Inner: g}
	c03StartOn(recBackend{grec, g}, start)
	gerr := mop.run(grec)
	rsl.ResetCacheForVerif()
	if (merr == nil) != (gerr == nil) {
		return fmt.Sprintf("%s/%s: memstore err=%v git err=%v", start, opName, merr, gerr)
	}
	if d := rec.Diff(mrec.Log, grec.Log); d != "" {
		return fmt.Sprintf("%s/%s: %s", start, opName, d)
	}
	return ""
}

type rawWriter interface {
	PutCommit(tree githash.Hash, parents []githash.Hash, message string, keyPEM []byte) (githash.Hash, error)
	PutTag(target githash.Hash, name, message string, keyPEM []byte) (githash.Hash, error)
}

// recBackend = recorded Storer calls + unrecorded raw object writes.
type recBackend struct {
	*rec.Recorder
	rawWriter
}

func must(err error) {
	if err != nil {
		panic(err)
	}
}

// c03Step applies op to ms and checks the invariant; it returns a violation
// signature + description, or "".
func c03Step(ms *memstore.Store, op c03Op, col *evid.Collector) (string, string) {
	before := world.WalkRSL(ms)
	err := op.run(ms)
	after := world.WalkRSL(ms)
	if col != nil {
		if err != nil {
			col.Inc("ops_failed")
		} else {
			col.Inc("ops_succeeded")
		}
		col.Class("%s/%v", strings.SplitN(op.Name, "(", 2)[0], err == nil)
	}
	// previous tip still an ancestor: `before` must be a suffix of `after`
	if len(after) < len(before) {
		return "C03:tip-not-descendant:" + op.kind, fmt.Sprintf("%s: log shrank from %d to %d entries", op.Name, len(before), len(after))
	}
	off := len(after) - len(before)
	for i := range before {
		if after[off+i].ID != before[i].ID {
			return "C03:tip-not-descendant:" + op.kind, fmt.Sprintf("%s: earlier tip %s is no longer an ancestor of the log tip", op.Name, before[0].ID)
		}
	}
	if msg := world.CheckChain(after); msg != "" {
		return "C03:chain-broken:" + op.kind, op.Name + ": " + msg
	}
	added := make([]world.ParsedText, 0, off)
	for i := off - 1; i >= 0; i-- {
		added = append(added, world.ParseText(after[i].Text))
	}
	if err != nil {
		if off != 0 {
			return "C03:failed-op-appended:" + strings.SplitN(op.Name, "(", 2)[0], fmt.Sprintf("%s failed (%v) but appended %d entries", op.Name, err, off)
		}
		return "", ""
	}
	if msg := op.expect(added); msg != "" {
		return "C03:wrong-entries-appended:" + strings.SplitN(op.Name, "(", 2)[0], fmt.Sprintf("%s: %s (appended %d)", op.Name, msg, off)
	}
	if op.kind == "annot" || strings.HasPrefix(op.Name, "annotate") {
		for _, a := range added {
			for _, id := range a.EntryIDs {
				c, ok := ms.RawCommit(id)
				if !ok || !world.ParseText(c.Message).WellForm {
					return "C03:annotation-of-non-entry-accepted", fmt.Sprintf("%s succeeded although %s is not a well-formed RSL entry", op.Name, id)
				}
			}
		}
	}
	// the real readers must walk the result end to end, first with the
	// process-wide cache as the operations left it, then cold
	for _, cold := range []bool{false, true} {
		if cold {
			rsl.ResetCacheForVerif()
		}
		if len(after) > 0 {
			if _, _, e := rsl.GetFirstEntry(ms); e != nil {
				return "C03:readers-cannot-walk", fmt.Sprintf("%s: rsl.GetFirstEntry fails on the resulting log (cold cache=%v): %v", op.Name, cold, e)
			}
		}
	}
	return "", ""
}

// c03ReplayPath rebuilds the state reached by path within ONE lifetime of the
// process-wide rsl cache (reset first), so that the judged operation runs with
// the cache exactly as a single process executing the whole path would have it.
func c03ReplayPath(start string, path []string, thorough bool) (*memstore.Store, bool) {
	rsl.ResetCacheForVerif()
	ms, w := c03Start(start)
	for _, name := range path {
		var found *c03Op
		for _, op := range c03Ops(ms, w, thorough) {
			if op.Name == name {
				op := op
				found = &op
				break
			}
		}
		if found == nil {
			return nil, false
		}
		_ = found.run(ms)
	}
	return ms, true
}

func TestC03(t *testing.T) {
	col := evid.New("C03")
	defer func() {
		if err := col.Write(); err != nil {
			t.Fatal(err)
		}
	}()
	thorough := evid.Thorough()
	depth := 4
	if thorough {
		depth = 5
	}
	col.Bound("depth", depth)
	col.Rule("breadth-first search over sequences of recording operations (menu regenerated in every state; see DESIGN C03) from 4 start states up to depth %d; states deduplicated on the full ref map (the RSL tip id is a content address of the whole chain); every transition is checked by an independent raw-commit walker; a class is (operation kind, succeeded?)", depth)
	col.Assume("memstore stands in for git (bound by the conformance check); entries are unsigned (signing is irrelevant to chain shape)")

	if rf := evid.ReplayFile(); rf != "" {
		var r c03Replay
		if err := evid.LoadReplay(rf, &r); err != nil {
			col.Fail(err.Error())
			return
		}
		ms, w := c03Start(r.Start)
		for i, name := range r.Ops {
			var found *c03Op
			for _, op := range c03Ops(ms, w, true) {
				if op.Name == name {
					op := op
					found = &op
					break
				}
			}
			if found == nil {
				col.Fail("replay: op not in menu: " + name)
				return
			}
			sig, what := c03Step(ms, *found, col)
			col.Inc("evaluations")
			if sig != "" {
				col.Violation(sig, what, c03Replay{Start: r.Start, Ops: r.Ops[:i+1]})
				return
			}
		}
		return
	}

	starts := []string{"empty", "numbered2", "legacy2", "rewritten"}
	type node struct {
		ms    *memstore.Store
		w     *c03World
		start string
		path  []string
	}
	item := 0
	for _, start := range starts {
		ms0, w := c03Start(start)
		seen := map[string]bool{c03Key(ms0): true}
		frontier := []node{{ms: ms0, w: w, start: start}}
		col.Inc("states")
		for d := 0; d < depth && len(frontier) > 0; d++ {
			next := []node{}
			for _, n := range frontier {
				ops := c03Ops(n.ms, n.w, thorough)
				for _, op := range ops {
					if d == 0 {
						item++
						if !evid.Mine(item) {
							continue
						}
						if diff := c03Conform(t, start, op.Name, thorough); diff != "" {
							col.Fail("memstore/git conformance: " + diff)
							return
						}
						col.Inc("traces_validated_against_impl")
					}
					if col.Expired() {
						return
					}
					// One process-cache lifetime per path: reset the rsl
					// cache, replay the path from the start state (the
					// snapshot of the parent state is only used for
					// deduplication), then apply and judge the new operation.
					ms, ok := c03ReplayPath(start, n.path, thorough)
					if !ok || c03Key(ms) != c03Key(n.ms) {
						col.Fail(fmt.Sprintf("path replay diverged for %s %v", start, n.path))
						return
					}
					sig, what := c03Step(ms, op, col)
					col.Inc("transitions")
					col.Inc("evaluations")
					path := append(append([]string(nil), n.path...), op.Name)
					if sig != "" {
						col.Violation(sig, what, c03Replay{Start: start, Ops: path})
						continue
					}
					k := c03Key(ms)
					if seen[k] {
						continue
					}
					seen[k] = true
					col.Inc("states")
					if len(path) == depth {
						col.Sample(map[string]any{"start": start, "ops": path, "log_len": len(world.WalkRSL(ms))})
					}
					next = append(next, node{ms: ms, w: n.w, start: start, path: path})
				}
			}
			frontier = next
		}
	}
}
