package checks

import (
	"fmt"
	"strings"
	"testing"

	"github.com/gittuf/gittuf/internal/policy"
	"github.com/gittuf/gittuf/pkg/rsl"
	"github.com/gittuf/gittuf/verif/evid"
	"github.com/gittuf/gittuf/verif/hist"
	"github.com/gittuf/gittuf/verif/memstore"
)

// C11 — global rules: every (delegation rules D, global rule set G) pair is a
// scenario; histories of pushes, force pushes, approvals and mid-history
// global-rule changes are explored; (1) absolute oracle = reference verifier
// with global rules, (2) monotonicity: the same history under D alone must be
// accepted whenever it is accepted under D+G.

type c11G struct {
	name  string
	rules []hist.GlobalSpec
}

func c11Globals() []c11G {
	thr := func(n string, ref string, k int) hist.GlobalSpec {
		return hist.GlobalSpec{Name: n, Kind: "threshold", Patterns: []string{"git:" + ref}, Threshold: k}
	}
	bfp := func(n string, ref string) hist.GlobalSpec {
		return hist.GlobalSpec{Name: n, Kind: "block-force-pushes", Patterns: []string{"git:" + ref}}
	}
	other := "refs/heads/other"
	return []c11G{
		{"none", nil},
		{"thr1-main", []hist.GlobalSpec{thr("t1", refMain, 1)}},
		{"thr2-main", []hist.GlobalSpec{thr("t2", refMain, 2)}},
		{"thr2-other", []hist.GlobalSpec{thr("t2o", other, 2)}},
		{"bfp-main", []hist.GlobalSpec{bfp("b", refMain)}},
		{"bfp-other", []hist.GlobalSpec{bfp("bo", other)}},
		{"thr2-main+bfp-main", []hist.GlobalSpec{thr("t2", refMain, 2), bfp("b", refMain)}},
		{"thr2-other+bfp-other", []hist.GlobalSpec{thr("t2o", other, 2), bfp("bo", other)}},
	}
}

type c11D struct {
	name  string
	rules []hist.RuleSpec
}

func c11Delegations() []c11D {
	return []c11D{
		{"unprotected", []hist.RuleSpec{{Name: "protect-other", Patterns: []string{"git:refs/heads/zzz"}, Principals: []string{"P0", "P1", "P2"}, Threshold: 1}}},
		{"P0P1/1", []hist.RuleSpec{mainRule([]string{"P0", "P1"}, 1)}},
		{"P0P1P2/2", []hist.RuleSpec{mainRule([]string{"P0", "P1", "P2"}, 2)}},
	}
}

// c11PolicyMenu: index = d*len(G)+g ; second half of the list is the same
// policy with its global rules stripped (used by the monotonicity oracle).
func c11Policies() []*hist.PolicySpec {
	ds, gs := c11Delegations(), c11Globals()
	out := []*hist.PolicySpec{}
	for _, d := range ds {
		for _, g := range gs {
			p := stdPolicy(d.name+"|"+g.name, map[string]hist.FileSpec{"targets": {Rules: d.rules}})
			p.Global = g.rules
			out = append(out, p)
		}
	}
	return out
}

func c11Stripped(idx int) int {
	n := len(c11Globals())
	return (idx / n) * n // same D, G = none
}

// c11StrippedFor: the tag and file-rule families list one delegation-rule set
// under c11ExtraG global-rule sets; policy 0 is the one without global rules.
func c11StrippedFor(sc *e1Scenario, idx int) int {
	if strings.HasPrefix(sc.Name, "C11/tags|") || strings.HasPrefix(sc.Name, "C11/file|") {
		return 0
	}
	return c11Stripped(idx)
}

const c11ExtraG = 3 // none, unrelated threshold rule, matching threshold-1 rule

func c11World(ms *memstore.Store) *hist.World { return c01World(ms) }

func c11Menu(d int) func(h *hist.Hist, depth int) []hist.Event {
	n := len(c11Globals())
	return func(h *hist.Hist, depth int) []hist.Event {
		evs := []hist.Event{}
		for _, c := range []string{"c1", "x"} {
			for _, s := range []string{"P0", "P1", "U", ""} {
				evs = append(evs, hist.Event{Kind: "push", Ref: refMain, Commit: c, Signer: s})
			}
		}
		evs = append(evs,
			hist.Event{Kind: "approve", Ref: refMain, Commit: "c1", Signers: []string{"P1"}},
			hist.Event{Kind: "approve", Ref: refMain, Commit: "c1", Signers: []string{"P1", "P2"}},
			hist.Event{Kind: "approve", Ref: refMain, Commit: "x", Signers: []string{"P1"}},
			// declare / change / remove a global rule mid-history
			hist.Event{Kind: "policy", Policy: d*n + 0},
			hist.Event{Kind: "policy", Policy: d*n + 2},
			hist.Event{Kind: "policy", Policy: d*n + 3},
		)
		return evs
	}
}

func c11Judge(sc *e1Scenario, h *hist.Hist, cps map[string][]int, col *evid.Collector) map[string][]int {
	out := e1Judge(sc, h, cps, col)
	// monotonicity: replay the same events with every policy stripped of its
	// global rules; accept(with G) must imply accept(without G)
	hasGlobal := false
	for _, ev := range h.Events {
		if ev.Kind == "policy" && ev.Policy != c11StrippedFor(sc, ev.Policy) {
			hasGlobal = true
		}
	}
	ref := sc.Refs[0]
	if !hasGlobal || h.A.LastIndex(ref) < 0 {
		return out
	}
	_, errG := policy.NewPolicyVerifier(h.MS).VerifyRefFull(world_ctx, ref)
	ms := memstore.New()
	s := hist.New(ms, sc.World(ms), sc.Policies)
	for _, ev := range h.Events {
		if ev.Kind == "policy" {
			ev.Policy = c11StrippedFor(sc, ev.Policy)
		}
		if err := s.Apply(ev); err != nil {
			col.Fail("stripped replay: " + err.Error())
			return out
		}
	}
	_, errD := policy.NewPolicyVerifier(ms).VerifyRefFull(world_ctx, ref)
	col.Inc("evaluations")
	col.Inc("monotonicity_pairs")
	col.Class("%s/monotone/withG=%s/withoutG=%s", sc.Name, e1ErrClass(errG), e1ErrClass(errD))
	if errG == nil && errD != nil {
		col.Violation("C11:global-rule-weakens:delegation-rules-bypassed-when-any-global-rule-exists",
			fmt.Sprintf("[%s] full(%s) is accepted with the global rules declared but rejected (%s) by the delegation rules alone", h.Describe(), ref, e1ErrClass(errD)),
			e1Replay{Scenario: sc.Name, Events: h.Events, Mode: "monotonicity", Ref: ref})
	}
	if errG != nil && errD == nil {
		col.Inc("global_rule_rejections")
	}
	rsl.ResetCacheForVerif()
	return out
}

// ---- tags and file rules under global rules ----
// The exhaustive verifier is also consulted when a tag object's own signature
// is checked and by the trusted-verifier shortcut of file rules, so both paths
// get (delegation rules x global rules) scenarios with the same two oracles.

func c11TagPolicies() []*hist.PolicySpec {
	tags := hist.RuleSpec{Name: "protect-tags", Patterns: []string{"git:refs/tags/*"}, Principals: []string{"P0", "P1"}, Threshold: 1}
	gs := [][]hist.GlobalSpec{nil,
		{{Name: "t2o", Kind: "threshold", Patterns: []string{"git:refs/heads/other"}, Threshold: 2}},
		{{Name: "t1t", Kind: "threshold", Patterns: []string{"git:refs/tags/*"}, Threshold: 1}}}
	out := []*hist.PolicySpec{}
	for i, g := range gs {
		p := stdPolicy(fmt.Sprintf("tags|g%d", i), map[string]hist.FileSpec{"targets": {Rules: []hist.RuleSpec{mainRule([]string{"P0"}, 1), tags}}})
		p.Global = g
		out = append(out, p)
	}
	return out
}

func c11TagMenu(h *hist.Hist, depth int) []hist.Event {
	evs := []hist.Event{}
	for _, t := range []string{"tagA", "tagU"} {
		for _, s := range []string{"P0", "P1", "U"} {
			evs = append(evs, hist.Event{Kind: "push", Ref: refTag, Commit: t, Signer: s})
		}
	}
	evs = append(evs, hist.Event{Kind: "approve", Ref: refTag, Commit: "tagA", Signers: []string{"P1"}},
		hist.Event{Kind: "policy", Policy: 0}, hist.Event{Kind: "policy", Policy: 1}, hist.Event{Kind: "policy", Policy: 2})
	return evs
}

func c11FileWorld(ms *memstore.Store) *hist.World {
	w := hist.NewWorld()
	w.AddCommit(ms, hist.CommitSpec{Name: "c0", Files: map[string]string{"a": "0", "b": "0"}, Signer: "P0"})
	w.AddCommit(ms, hist.CommitSpec{Name: "aP0", Files: map[string]string{"a": "1", "b": "0"}, Parents: []string{"c0"}, Signer: "P0"})
	w.AddCommit(ms, hist.CommitSpec{Name: "aU", Files: map[string]string{"a": "2", "b": "0"}, Parents: []string{"c0"}, Signer: "U"})
	w.AddCommit(ms, hist.CommitSpec{Name: "bU", Files: map[string]string{"a": "0", "b": "1"}, Parents: []string{"c0"}, Signer: "U"})
	w.AddCommit(ms, hist.CommitSpec{Name: "baU", Files: map[string]string{"a": "3", "b": "1"}, Parents: []string{"bU"}, Signer: "U"})
	return w
}

func c11FilePolicies() []*hist.PolicySpec {
	fileA := hist.RuleSpec{Name: "protect-a", Patterns: []string{"file:a"}, Principals: []string{"P0"}, Threshold: 1}
	gs := [][]hist.GlobalSpec{nil,
		{{Name: "t2o", Kind: "threshold", Patterns: []string{"git:refs/heads/other"}, Threshold: 2}},
		{{Name: "t1m", Kind: "threshold", Patterns: []string{"git:" + refMain}, Threshold: 1}}}
	out := []*hist.PolicySpec{}
	for i, g := range gs {
		p := stdPolicy(fmt.Sprintf("file|g%d", i), map[string]hist.FileSpec{"targets": {Rules: []hist.RuleSpec{mainRule([]string{"P0", "P1"}, 1), fileA}}})
		p.Global = g
		out = append(out, p)
	}
	return out
}

func c11FileMenu(h *hist.Hist, depth int) []hist.Event {
	evs := []hist.Event{}
	for _, c := range []string{"aP0", "aU", "bU", "baU"} {
		for _, s := range []string{"P0", "P1", "U"} {
			evs = append(evs, hist.Event{Kind: "push", Ref: refMain, Commit: c, Signer: s})
		}
	}
	evs = append(evs, hist.Event{Kind: "policy", Policy: 0}, hist.Event{Kind: "policy", Policy: 1}, hist.Event{Kind: "policy", Policy: 2})
	return evs
}

func c11ExtraScenarios(thorough bool) []*e1Scenario {
	depth := 2
	if thorough {
		depth = 3
	}
	scs := []*e1Scenario{}
	tp, fp := c11TagPolicies(), c11FilePolicies()
	for g := 0; g < c11ExtraG; g++ {
		scs = append(scs, &e1Scenario{Name: fmt.Sprintf("C11/%s", tp[g].Name), World: c01TagWorld, Policies: tp,
			Prefix: []hist.Event{{Kind: "policy", Policy: g}}, Menu: c11TagMenu, Depth: depth + 1, Refs: []string{refTag}, Judge: c11Judge})
		scs = append(scs, &e1Scenario{Name: fmt.Sprintf("C11/%s", fp[g].Name), World: c11FileWorld, Policies: fp,
			Prefix: []hist.Event{{Kind: "policy", Policy: g}, {Kind: "push", Ref: refMain, Commit: "c0", Signer: "P0"}}, Menu: c11FileMenu, Depth: depth, Refs: []string{refMain}, Judge: c11Judge})
	}
	return scs
}

func c11Scenarios(thorough bool) []*e1Scenario {
	depth := 3
	if thorough {
		depth = 4
	}
	pols := c11Policies()
	n := len(c11Globals())
	scs := []*e1Scenario{}
	for d := range c11Delegations() {
		for g := range c11Globals() {
			scs = append(scs, &e1Scenario{Name: fmt.Sprintf("C11/%s", pols[d*n+g].Name), World: c11World, Policies: pols,
				Prefix: []hist.Event{{Kind: "policy", Policy: d*n + g}, {Kind: "push", Ref: refMain, Commit: "c0", Signer: "P0"}},
				Menu:   c11Menu(d), Depth: depth, Refs: []string{refMain}, Judge: c11Judge})
		}
	}
	return scs
}

func TestC11(t *testing.T) {
	col := evid.New("C11")
	defer func() {
		if err := col.Write(); err != nil {
			t.Fatal(err)
		}
	}()
	scs := c11Scenarios(evid.Thorough())
	scs = append(scs, c11ExtraScenarios(evid.Thorough())...)
	col.Bound("events_after_prefix", scs[0].Depth)
	col.Bound("policy_pairs", len(scs))
	col.Rule("for each of 3 delegation-rule sets x 8 global-rule sets (threshold 1/2 on main, threshold 2 on an unrelated ref, block-force-pushes on main / on an unrelated ref, and two pairs) as initial policy: every sequence of <= %d events over {fast-forward and force push to main by P0/P1/unknown/unsigned, approvals of the next change by {P1},{P1,P2}, policy entries that remove / add a matching / add an unrelated global rule}; at every node (1) all verification modes vs the reference verifier with global rules, (2) monotonicity: the same history replayed with all global rules stripped must be accepted whenever it is accepted with them. Two more families with the same oracles cover the other places where the verifier list is consumed: recordings of a tag (tag object signed by an authorised / unknown key, entry by P0/P1/unknown, approvals) under {no, an unrelated, a matching} global rule, and pushes whose commits change a file protected by a file rule (commits signed by the authorised principal / an unknown key, touching the protected and an unprotected file) under the same three global-rule sets, <= 2-3 (thorough 3-4) events. A class is (scenario, mode or 'monotone', outcomes)", scs[0].Depth)
	col.Assume("global rules declared in the repository's own root only (controller metadata needs cloning other repositories and is not in the alphabet); authenticated principals = principals of the policy state whose key signed the entry or the authorisation")
	if e1Replayer(scs, col) {
		return
	}
	e1ExploreTiers(func(th bool) []*e1Scenario { return append(c11Scenarios(th), c11ExtraScenarios(th)...) }, nil, col)
}
