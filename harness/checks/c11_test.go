package checks

import (
	"fmt"
	"testing"

	"github.com/gittuf/gittuf/internal/policy"
	"github.com/gittuf/gittuf/pkg/rsl"
	"github.com/gittuf/gittuf/verif/evid"
	"github.com/gittuf/gittuf/verif/hist"
	"github.com/gittuf/gittuf/verif/memstore"
)

// C11 — global rules: every (delegation rules D, global rule set G) pair is a
// scenario; histories of pushes, force pushes, approvals and mid-history
// global-rule changes are explored; (1) absolute oracle = reference verifier
// with global rules, (2) monotonicity: the same history under D alone must be
// accepted whenever it is accepted under D+G.

type c11G struct {
	name  string
	rules []hist.GlobalSpec
}

func c11Globals() []c11G {
	thr := func(n string, ref string, k int) hist.GlobalSpec {
		return hist.GlobalSpec{Name: n, Kind: "threshold", Patterns: []string{"git:" + ref}, Threshold: k}
	}
	bfp := func(n string, ref string) hist.GlobalSpec {
		return hist.GlobalSpec{Name: n, Kind: "block-force-pushes", Patterns: []string{"git:" + ref}}
	}
	other := "refs/heads/other"
	return []c11G{
		{"none", nil},
		{"thr1-main", []hist.GlobalSpec{thr("t1", refMain, 1)}},
		{"thr2-main", []hist.GlobalSpec{thr("t2", refMain, 2)}},
		{"thr2-other", []hist.GlobalSpec{thr("t2o", other, 2)}},
		{"bfp-main", []hist.GlobalSpec{bfp("b", refMain)}},
		{"bfp-other", []hist.GlobalSpec{bfp("bo", other)}},
		{"thr2-main+bfp-main", []hist.GlobalSpec{thr("t2", refMain, 2), bfp("b", refMain)}},
		{"thr2-other+bfp-other", []hist.GlobalSpec{thr("t2o", other, 2), bfp("bo", other)}},
	}
}

type c11D struct {
	name  string
	rules []hist.RuleSpec
}

func c11Delegations() []c11D {
	return []c11D{
		{"unprotected", []hist.RuleSpec{{Name: "protect-other", Patterns: []string{"git:refs/heads/zzz"}, Principals: []string{"P0", "P1", "P2"}, Threshold: 1}}},
		{"P0P1/1", []hist.RuleSpec{mainRule([]string{"P0", "P1"}, 1)}},
		{"P0P1P2/2", []hist.RuleSpec{mainRule([]string{"P0", "P1", "P2"}, 2)}},
	}
}

// c11PolicyMenu: index = d*len(G)+g ; second half of the list is the same
// policy with its global rules stripped (used by the monotonicity oracle).
func c11Policies() []*hist.PolicySpec {
	ds, gs := c11Delegations(), c11Globals()
	out := []*hist.PolicySpec{}
	for _, d := range ds {
		for _, g := range gs {
			p := stdPolicy(d.name+"|"+g.name, map[string]hist.FileSpec{"targets": {Rules: d.rules}})
			p.Global = g.rules
			out = append(out, p)
		}
	}
	return out
}

func c11Stripped(idx int) int {
	n := len(c11Globals())
	return (idx / n) * n // same D, G = none
}

func c11World(ms *memstore.Store) *hist.World { return c01World(ms) }

func c11Menu(d int) func(h *hist.Hist, depth int) []hist.Event {
	n := len(c11Globals())
	return func(h *hist.Hist, depth int) []hist.Event {
		evs := []hist.Event{}
		for _, c := range []string{"c1", "x"} {
			for _, s := range []string{"P0", "P1", "U", ""} {
				evs = append(evs, hist.Event{Kind: "push", Ref: refMain, Commit: c, Signer: s})
			}
		}
		evs = append(evs,
			hist.Event{Kind: "approve", Ref: refMain, Commit: "c1", Signers: []string{"P1"}},
			hist.Event{Kind: "approve", Ref: refMain, Commit: "c1", Signers: []string{"P1", "P2"}},
			hist.Event{Kind: "approve", Ref: refMain, Commit: "x", Signers: []string{"P1"}},
			// declare / change / remove a global rule mid-history
			hist.Event{Kind: "policy", Policy: d*n + 0},
			hist.Event{Kind: "policy", Policy: d*n + 2},
			hist.Event{Kind: "policy", Policy: d*n + 3},
		)
		return evs
	}
}

func c11Judge(sc *e1Scenario, h *hist.Hist, cps map[string][]int, col *evid.Collector) map[string][]int {
	out := e1Judge(sc, h, cps, col)
	// monotonicity: replay the same events with every policy stripped of its
	// global rules; accept(with G) must imply accept(without G)
	hasGlobal := false
	for _, ev := range h.Events {
		if ev.Kind == "policy" && ev.Policy != c11Stripped(ev.Policy) {
			hasGlobal = true
		}
	}
	if !hasGlobal || h.A.LastIndex(refMain) < 0 {
		return out
	}
	_, errG := policy.NewPolicyVerifier(h.MS).VerifyRefFull(world_ctx, refMain)
	ms := memstore.New()
	s := hist.New(ms, sc.World(ms), sc.Policies)
	for _, ev := range h.Events {
		if ev.Kind == "policy" {
			ev.Policy = c11Stripped(ev.Policy)
		}
		if err := s.Apply(ev); err != nil {
			col.Fail("stripped replay: " + err.Error())
			return out
		}
	}
	_, errD := policy.NewPolicyVerifier(ms).VerifyRefFull(world_ctx, refMain)
	col.Inc("evaluations")
	col.Inc("monotonicity_pairs")
	col.Class("%s/monotone/withG=%s/withoutG=%s", sc.Name, e1ErrClass(errG), e1ErrClass(errD))
	if errG == nil && errD != nil {
		col.Violation("C11:global-rule-weakens:delegation-rules-bypassed-when-any-global-rule-exists",
			fmt.Sprintf("[%s] full(main) is accepted with the global rules declared but rejected (%s) by the delegation rules alone", h.Describe(), e1ErrClass(errD)),
			e1Replay{Scenario: sc.Name, Events: h.Events, Mode: "monotonicity", Ref: refMain})
	}
	if errG != nil && errD == nil {
		col.Inc("global_rule_rejections")
	}
	rsl.ResetCacheForVerif()
	return out
}

func c11Scenarios(thorough bool) []*e1Scenario {
	depth := 3
	if thorough {
		depth = 4
	}
	pols := c11Policies()
	n := len(c11Globals())
	scs := []*e1Scenario{}
	for d := range c11Delegations() {
		for g := range c11Globals() {
			scs = append(scs, &e1Scenario{Name: fmt.Sprintf("C11/%s", pols[d*n+g].Name), World: c11World, Policies: pols,
				Prefix: []hist.Event{{Kind: "policy", Policy: d*n + g}, {Kind: "push", Ref: refMain, Commit: "c0", Signer: "P0"}},
				Menu:   c11Menu(d), Depth: depth, Refs: []string{refMain}, Judge: c11Judge})
		}
	}
	return scs
}

func TestC11(t *testing.T) {
	col := evid.New("C11")
	defer func() {
		if err := col.Write(); err != nil {
			t.Fatal(err)
		}
	}()
	scs := c11Scenarios(evid.Thorough())
	col.Bound("events_after_prefix", scs[0].Depth)
	col.Bound("policy_pairs", len(scs))
	col.Rule("for each of 3 delegation-rule sets x 8 global-rule sets (threshold 1/2 on main, threshold 2 on an unrelated ref, block-force-pushes on main / on an unrelated ref, and two pairs) as initial policy: every sequence of <= %d events over {fast-forward and force push to main by P0/P1/unknown/unsigned, approvals of the next change by {P1},{P1,P2}, policy entries that remove / add a matching / add an unrelated global rule}; at every node (1) all verification modes vs the reference verifier with global rules, (2) monotonicity: the same history replayed with all global rules stripped must be accepted whenever it is accepted with them. A class is (scenario, mode or 'monotone', outcomes)", scs[0].Depth)
	col.Assume("global rules declared in the repository's own root only (controller metadata needs cloning other repositories and is not in the alphabet); authenticated principals = principals of the policy state whose key signed the entry or the authorisation")
	if e1Replayer(scs, col) {
		return
	}
	item := 0
	for _, sc := range scs {
		e1Explore(sc, col, &item)
	}
}
