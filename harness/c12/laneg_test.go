package c12

import (
	"errors"
	"fmt"
	"os"
	"os/exec"
	"path/filepath"
	"strings"
	"sync"
	"syscall"
	"testing"
	"time"

	"github.com/gittuf/gittuf/experimental/gittuf"
	rootopts "github.com/gittuf/gittuf/experimental/gittuf/options/root"
	trustpolicyopts "github.com/gittuf/gittuf/experimental/gittuf/options/trustpolicy"
	"github.com/gittuf/gittuf/internal/policy"
	sshsigner "github.com/gittuf/gittuf/internal/signerverifier/ssh"
	"github.com/gittuf/gittuf/internal/tuf"
	tufv01 "github.com/gittuf/gittuf/internal/tuf/v01"
	"github.com/gittuf/gittuf/pkg/rsl"
	"github.com/gittuf/gittuf/verif/evid"
	"github.com/gittuf/gittuf/verif/gitback"
	"github.com/gittuf/gittuf/verif/keys"
	"github.com/gittuf/gittuf/verif/world"
	"golang.org/x/crypto/ssh"
)

// Lane G: the gittuf.Repository API on real repositories. Signers are
// gittuf's own file-based ssh signers (ssh-keygen -Y sign). Repositories are
// opened with gittuf.LoadRepository (real clock), so states are merged on the
// clock-independent canonical key only.

// ---- raw git view (plumbing only) ----

type gitView struct {
	gb      *gitback.Repo
	commits map[string]rawCommit
	loaded  bool
}

func (g *gitView) Refs() map[string]string { return g.gb.Refs() }

// preload reads every commit reachable from any ref with ONE plumbing call
// (NUL/SOH-delimited); unreachable commits fall back to cat-file.
func (g *gitView) preload() {
	out, err := g.gb.Git(nil, "log", "--all", "--format=%H%x00%T%x00%P%x00%B%x01")
	if err != nil {
		return
	}
	for _, rec := range strings.Split(string(out), "\x01") {
		rec = strings.TrimLeft(rec, "\n")
		f := strings.SplitN(rec, "\x00", 4)
		if len(f) != 4 {
			continue
		}
		c := rawCommit{Tree: f[1], Message: strings.TrimSpace(f[3])}
		if f[2] != "" {
			c.Parents = strings.Fields(f[2])
		}
		g.commits[f[0]] = c
	}
}

func (g *gitView) Commit(id string) (rawCommit, bool) {
	if c, ok := g.commits[id]; ok {
		return c, true
	}
	if !g.loaded {
		g.loaded = true
		g.preload()
		if c, ok := g.commits[id]; ok {
			return c, true
		}
	}
	out, err := g.gb.Git(nil, "cat-file", "commit", id)
	if err != nil {
		return rawCommit{}, false
	}
	s := string(out)
	i := strings.Index(s, "\n\n")
	if i < 0 {
		return rawCommit{}, false
	}
	c := rawCommit{Message: strings.TrimSpace(s[i+2:])}
	for _, line := range strings.Split(s[:i], "\n") {
		switch {
		case strings.HasPrefix(line, "tree "):
			c.Tree = line[5:]
		case strings.HasPrefix(line, "parent "):
			c.Parents = append(c.Parents, line[7:])
		}
	}
	g.commits[id] = c
	return c, true
}

func (g *gitView) File(commit, path string) ([]byte, bool) {
	out, err := g.gb.Git(nil, "cat-file", "blob", commit+":"+path)
	if err != nil {
		return nil, false
	}
	return out, true
}

// ---- repositories ----

type gRepo struct {
	dir  string
	repo *gittuf.Repository
	gb   *gitback.Repo
	v    *gitView
}

func openG(dir string) (*gRepo, error) {
	r, err := gittuf.LoadRepository(dir)
	if err != nil {
		return nil, err
	}
	gb := &gitback.Repo{Repository: r.GetGitRepository(), Dir: dir}
	return &gRepo{dir: dir, repo: r, gb: gb, v: &gitView{gb: gb, commits: map[string]rawCommit{}}}, nil
}

var dirSeq int

func copyDir(src string) (string, error) {
	dirSeq++
	dst := filepath.Join(filepath.Dir(src), fmt.Sprintf("g%06d", dirSeq))
	if out, err := exec.Command("cp", "-a", src, dst).CombinedOutput(); err != nil {
		return "", fmt.Errorf("cp -a: %v: %s", err, out)
	}
	return dst, nil
}

func (g *gRepo) backend() *backend {
	return &backend{st: g.gb, v: g.v, fork: func() (*backend, func()) {
		d, err := copyDir(g.dir)
		must(err)
		f, err := openG(d)
		must(err)
		return f.backend(), func() { os.RemoveAll(d) }
	}}
}

// ---- signers ----

var (
	signerMu sync.Mutex
	signers  = map[string]*sshsigner.Signer{}
)

func fileSigner(name string) *sshsigner.Signer {
	signerMu.Lock()
	defer signerMu.Unlock()
	if s, ok := signers[name]; ok {
		return s
	}
	dir := filepath.Join(os.Getenv("VERIF_SCRATCH"), "c12-keys")
	must(os.MkdirAll(dir, 0o700))
	k := keys.Get(name)
	path := filepath.Join(dir, name)
	must(os.WriteFile(path, k.PEM, 0o600))
	must(os.WriteFile(path+".pub", ssh.MarshalAuthorizedKey(k.Pub), 0o600))
	s, err := sshsigner.NewSignerFromFile(path)
	must(err)
	if id, _ := s.KeyID(); id != k.KeyID {
		panic("file signer key id differs from the harness key id")
	}
	signers[name] = s
	return s
}

func principal(name string) tuf.Principal {
	return tufv01.NewKeyFromSSLibKey(fileSigner(name).MetadataKey())
}

// ---- operations ----

func menuG(thorough bool) []op {
	ops := []op{}
	// quick tier: a 16-operation subset (one representative per operation and
	// signer class); thorough: all 23
	thoroughOnly := map[string]bool{"RemoveRootKey(R1)/R0": true, "RemoveRootKey(R1)/U": true, "AddTopLevelTargetsKey(T0)/R0": true,
		"AddTopLevelTargetsKey(T0)/U": true, "SignRoot/R0": true, "AddDelegation/U": true, "SignTargets/T0": true}
	add := func(name, kind, signer string, run func(r *gittuf.Repository) error) {
		if !thorough && thoroughOnly[name] {
			return
		}
		o := op{Name: name, Kind: kind, runG: run}
		if signer != "" {
			o.signer = keys.Get(signer)
		}
		ops = append(ops, o)
	}
	entry := trustpolicyopts.WithRSLEntry()
	add("InitializeRoot/R0", "init", "R0", func(r *gittuf.Repository) error {
		return r.InitializeRoot(world.Ctx, fileSigner("R0"), false, rootopts.WithRSLEntry())
	})
	for _, s := range []string{"R0", "R1"} {
		s := s
		add("AddRootKey(R1)/"+s, "g-root-edit", s, func(r *gittuf.Repository) error {
			return r.AddRootKey(world.Ctx, fileSigner(s), principal("R1"), false, entry)
		})
		add("RemoveRootKey(R0)/"+s, "g-root-edit", s, func(r *gittuf.Repository) error {
			return r.RemoveRootKey(world.Ctx, fileSigner(s), keys.Get("R0").KeyID, false, entry)
		})
		add("UpdateRootThreshold(2)/"+s, "g-root-edit", s, func(r *gittuf.Repository) error {
			return r.UpdateRootThreshold(world.Ctx, fileSigner(s), 2, false, entry)
		})
		add("SignRoot/"+s, "sign-root", s, func(r *gittuf.Repository) error {
			return r.SignRoot(world.Ctx, fileSigner(s), false, entry)
		})
	}
	for _, s := range []string{"R0", "U"} {
		s := s
		add("RemoveRootKey(R1)/"+s, "g-root-edit", s, func(r *gittuf.Repository) error {
			return r.RemoveRootKey(world.Ctx, fileSigner(s), keys.Get("R1").KeyID, false, entry)
		})
		add("AddTopLevelTargetsKey(T0)/"+s, "g-root-edit", s, func(r *gittuf.Repository) error {
			return r.AddTopLevelTargetsKey(world.Ctx, fileSigner(s), principal("T0"), false, entry)
		})
		add("AddGlobalRuleThreshold/"+s, "g-root-edit", s, func(r *gittuf.Repository) error {
			return r.AddGlobalRuleThreshold(world.Ctx, fileSigner(s), "g-main", []string{"git:" + mainRef}, 1, false, entry)
		})
	}
	add("InitializeTargets/T0", "edit-rules", "T0", func(r *gittuf.Repository) error {
		return r.InitializeTargets(world.Ctx, fileSigner("T0"), policy.TargetsRoleName, false, entry)
	})
	for _, s := range []string{"T0", "U"} {
		s := s
		add("AddDelegation/"+s, "edit-rules", s, func(r *gittuf.Repository) error {
			return r.AddDelegation(world.Ctx, fileSigner(s), policy.TargetsRoleName, "protect-feat", []string{keys.Get("P0").KeyID}, []string{"git:refs/heads/feat"}, 1, false, entry)
		})
		add("SignTargets/"+s, "sign-rules", s, func(r *gittuf.Repository) error {
			return r.SignTargets(world.Ctx, fileSigner(s), policy.TargetsRoleName, false, entry)
		})
	}
	add("StagePolicy", "stage", "", func(r *gittuf.Repository) error { return r.StagePolicy(world.Ctx, "", true, false) })
	add("ApplyPolicy", "apply", "", func(r *gittuf.Repository) error { return r.ApplyPolicy(world.Ctx, "", true, false) })
	add("DiscardPolicy", "discard", "", func(r *gittuf.Repository) error { return r.DiscardPolicy() })
	return ops
}

var gStarts = []string{"applied", "empty"}

// startG returns a start repository built through the API. The shards of one
// run share the built repository (built once under a file lock in the run's
// scratch directory, then copied), because building costs ~8 API operations.
func startG(t *testing.T, name string) (*gRepo, *mWorld, error) {
	own, err := os.MkdirTemp(os.Getenv("VERIF_SCRATCH"), "start-"+name+"-")
	if err != nil {
		return nil, nil, err
	}
	dir := filepath.Join(own, "r")
	shared := filepath.Join(filepath.Dir(strings.TrimRight(os.Getenv("VERIF_SCRATCH"), "/")), "c12-start-"+name)
	if os.Getenv("VERIF_SCRATCH") == "" {
		shared = filepath.Join(own, "shared")
	}
	lock, err := os.OpenFile(shared+".lock", os.O_CREATE|os.O_RDWR, 0o600)
	if err != nil {
		return nil, nil, err
	}
	defer lock.Close()
	if err := syscall.Flock(int(lock.Fd()), syscall.LOCK_EX); err != nil {
		return nil, nil, err
	}
	if _, err := os.Stat(shared + ".ready"); err != nil {
		if err := buildStartG(t, name, shared); err != nil {
			syscall.Flock(int(lock.Fd()), syscall.LOCK_UN)
			return nil, nil, err
		}
		must(os.WriteFile(shared+".ready", []byte("ok"), 0o600))
	}
	syscall.Flock(int(lock.Fd()), syscall.LOCK_UN)
	if out, err := exec.Command("cp", "-a", shared, dir).CombinedOutput(); err != nil {
		return nil, nil, fmt.Errorf("cp -a: %v: %s", err, out)
	}
	g, err := openG(dir)
	if err != nil {
		return nil, nil, err
	}
	// deterministic raw objects (fixed identity and time): same ids as at build time
	return g, buildWorld(g.gb), nil
}

func buildStartG(t *testing.T, name, into string) error {
	base := gitback.New(t, false)
	g, err := openG(base.Dir)
	if err != nil {
		return err
	}
	w := buildWorld(g.gb)
	if name != "empty" {
		entry := trustpolicyopts.WithRSLEntry()
		r := g.repo
		steps := []func() error{
			func() error { return r.InitializeRoot(world.Ctx, fileSigner("R0"), false, rootopts.WithRSLEntry()) },
			func() error {
				return r.AddTopLevelTargetsKey(world.Ctx, fileSigner("R0"), principal("T0"), false, entry)
			},
			func() error {
				return r.InitializeTargets(world.Ctx, fileSigner("T0"), policy.TargetsRoleName, false, entry)
			},
			func() error {
				return r.AddPrincipalToTargets(world.Ctx, fileSigner("T0"), policy.TargetsRoleName, []tuf.Principal{principal("P0")}, false, entry)
			},
			func() error {
				return r.AddDelegation(world.Ctx, fileSigner("T0"), policy.TargetsRoleName, "protect-main", []string{keys.Get("P0").KeyID}, []string{"git:" + mainRef}, 1, false, entry)
			},
			func() error { return r.ApplyPolicy(world.Ctx, "", true, false) },
			func() error { return world.Record(g.gb, mainRef, w.c0, keys.Get("P0")) },
		}
		for i, s := range steps {
			if err := s(); err != nil {
				return fmt.Errorf("building lane-G start state %q: step %d: %w", name, i, err)
			}
		}
	}
	if out, err := exec.Command("cp", "-a", base.Dir, into).CombinedOutput(); err != nil {
		return fmt.Errorf("cp -a: %v: %s", err, out)
	}
	return nil
}

// judgeG = the signer-authorisation clause + the common invariant.
func judgeG(g *gRepo, w *mWorld, before, after obs, o op, err error, col *evid.Collector) verdict {
	if o.Kind == "g-root-edit" && before.S != "" {
		m, e := readMeta(g.v, before.S)
		if e == nil {
			isRoot := false
			for _, id := range m.root.Roles["root"].PrincipalIDs {
				if id == o.signer.KeyID {
					isRoot = true
				}
			}
			name := strings.SplitN(o.Name, "/", 2)[0]
			if !isRoot {
				col.Inc("root_edits_by_non_root_signer")
				if err == nil {
					return verdict{"C12:root-edit-by-non-root-signer-accepted:" + name, fmt.Sprintf("%s succeeded although %s is not a root principal of the staged state %s", o.Name, o.signer.Name, before.S)}
				}
				if d := sameRefs(before.Refs, after.Refs); d != "" {
					return verdict{"C12:refused-root-edit-changed-state:" + name, fmt.Sprintf("%s was refused (%v) but changed %s", o.Name, err, d)}
				}
				if errors.Is(err, gittuf.ErrUnauthorizedKey) {
					col.Inc("root_edits_refused_unauthorized_key")
				} else {
					col.Inc("root_edits_refused_other_error")
				}
			} else {
				col.Inc("root_edits_by_root_signer")
			}
		}
	}
	kind := o.Kind
	if kind == "g-root-edit" {
		kind = "edit-root"
	}
	o.Kind = kind
	return judge(g.backend(), w, before, after, o, err, col, "G")
}

// errPanic wraps a panic of the code under test. A crash of an API call is
// not a C12 matter (the refs/log invariant is still evaluated on what the
// crashed call left behind); it is counted, classified and noted for triage.
type errPanic struct{ msg string }

func (e errPanic) Error() string { return "PANIC in the code under test: " + e.msg }

func runRecovered(f func() error, col *evid.Collector) (err error) {
	defer func() {
		if r := recover(); r != nil {
			col.Inc("api_panics")
			err = errPanic{fmt.Sprint(r)}
		}
	}()
	return f()
}

type gNode struct {
	dir  string
	o    obs
	path []string
}

func stepG(n gNode, w *mWorld, o op, col *evid.Collector) (*gRepo, obs, verdict, error) {
	dir, err := copyDir(n.dir)
	if err != nil {
		return nil, obs{}, verdict{}, err
	}
	g, err := openG(dir)
	if err != nil {
		return nil, obs{}, verdict{}, err
	}
	rsl.ResetCacheForVerif()
	opErr := runRecovered(func() error { return o.runG(g.repo) }, col)
	after := observe(g.v)
	col.Inc("transitions")
	col.Inc("evaluations")
	col.Inc("traces_validated_against_impl")
	col.Inc("lane_g_operations")
	signer := ""
	if o.signer != nil {
		signer = "/signer=" + o.signer.Name
	}
	cls := errClass(opErr)
	if errors.Is(opErr, gittuf.ErrUnauthorizedKey) {
		cls = "refused:unauthorized-key"
	}
	var ep errPanic
	if errors.As(opErr, &ep) {
		cls = "PANIC:" + ep.msg
		if len(cls) > 70 {
			cls = cls[:70]
		}
		col.Note("not a C12 matter, for triage: lane G operation %s after %v panics: %s", o.Name, n.path, ep.msg)
	}
	col.Class("G/%s%s/%s", kindOf(o.Name), signer, cls)
	vd := judgeG(g, w, n.o, after, o, opErr, col)
	return g, after, vd, nil
}

func searchG(t *testing.T, depth int, thorough bool, item *int, col *evid.Collector, stop time.Time) {
	ops := menuG(thorough)
	type tree struct {
		start    string
		w        *mWorld
		rootDir  string
		mine     map[int]bool
		seen     map[string]bool
		frontier []gNode
	}
	trees := []*tree{}
	for _, start := range gStarts {
		tr := &tree{start: start, mine: map[int]bool{}, seen: map[string]bool{}}
		for i := range ops {
			*item++
			if mine(*item) {
				tr.mine[i] = true
			}
		}
		if len(tr.mine) == 0 {
			continue
		}
		g0, w, err := startG(t, start)
		if err != nil {
			col.Fail(err.Error())
			return
		}
		root := gNode{dir: g0.dir, o: observe(g0.v)}
		tr.w, tr.rootDir = w, g0.dir
		tr.seen[canonKey(g0.v, root.o)] = true
		tr.frontier = []gNode{root}
		col.Inc("states")
		trees = append(trees, tr)
	}
	// both start states advance level by level, so a time slice that runs out
	// leaves complete shallow levels for every start
	for d := 0; d < depth; d++ {
		for _, tr := range trees {
			next := []gNode{}
			for _, n := range tr.frontier {
				for i, o := range ops {
					if d == 0 && !tr.mine[i] {
						continue
					}
					if col.Expired() {
						return
					}
					if !stop.IsZero() && time.Now().After(stop) {
						col.NotExhaustive(fmt.Sprintf("lane G stopped at the end of its time slice while expanding depth %d of start %q (shallower levels are complete)", d+1, tr.start))
						return
					}
					g, after, vd, err := stepG(n, tr.w, o, col)
					if err != nil {
						col.Fail("lane G: " + err.Error())
						return
					}
					path := append(append([]string(nil), n.path...), o.Name)
					if vd.sig != "" {
						col.Violation(vd.sig, "after "+strings.Join(path, " > ")+": "+vd.what, replay{Lane: "G", Start: tr.start, Ops: path})
						os.RemoveAll(g.dir)
						continue
					}
					k := canonKey(g.v, after)
					fresh := !tr.seen[k]
					if fresh {
						tr.seen[k] = true
						col.Inc("states")
						if len(path) == depth && (o.Kind == "apply" || len(after.Log)%5 == 0) {
							col.Sample(map[string]any{"lane": "G", "start": tr.start, "ops": path, "policy_entries": len(after.entriesFor(policyRef)), "log_len": len(after.Log)})
						}
					}
					if !fresh || len(path) == depth {
						os.RemoveAll(g.dir)
						continue
					}
					next = append(next, gNode{dir: g.dir, o: after, path: path})
				}
				if n.dir != tr.rootDir {
					os.RemoveAll(n.dir)
				}
			}
			tr.frontier = next
		}
	}
}

func replayG(t *testing.T, r replay, col *evid.Collector) {
	g0, w, err := startG(t, r.Start)
	if err != nil {
		col.Fail(err.Error())
		return
	}
	ops := menuG(true)
	n := gNode{dir: g0.dir, o: observe(g0.v)}
	for i, name := range r.Ops {
		o := findOp(ops, name)
		if o == nil {
			col.Fail("replay: unknown lane-G operation " + name)
			return
		}
		g, after, vd, err := stepG(n, w, *o, col)
		if err != nil {
			col.Fail("lane G: " + err.Error())
			return
		}
		if vd.sig != "" {
			col.Violation(vd.sig, vd.what, replay{Lane: "G", Start: r.Start, Ops: r.Ops[:i+1]})
			return
		}
		n = gNode{dir: g.dir, o: after, path: r.Ops[:i+1]}
	}
}
