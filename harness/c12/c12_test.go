package c12

import (
	"crypto/sha1"
	"errors"
	"fmt"
	"os"
	"regexp"
	"sort"
	"strconv"
	"strings"
	"testing"
	"time"

	"github.com/gittuf/gittuf/experimental/gittuf"
	"github.com/gittuf/gittuf/internal/policy"
	policyopts "github.com/gittuf/gittuf/internal/policy/options/policy"
	sdsse "github.com/gittuf/gittuf/internal/signerverifier/dsse"
	"github.com/gittuf/gittuf/internal/tuf"
	tufv01 "github.com/gittuf/gittuf/internal/tuf/v01"
	"github.com/gittuf/gittuf/pkg/githash"
	"github.com/gittuf/gittuf/pkg/gitstore"
	"github.com/gittuf/gittuf/pkg/rsl"
	"github.com/gittuf/gittuf/verif/evid"
	"github.com/gittuf/gittuf/verif/gitback"
	"github.com/gittuf/gittuf/verif/keys"
	"github.com/gittuf/gittuf/verif/memstore"
	"github.com/gittuf/gittuf/verif/world"
)

// C12 — explicit-state search over policy-lifecycle operation sequences.
//
// Lane M: operations built from the same primitives the API uses (real tuf
// mutators, real dsse signing helpers, State.Commit, policy.Apply,
// policy.Discard) plus direct tampering of the policy/staging refs and of the
// log, over memstore snapshots. Lane F (a seam of lane M): every successful
// Apply is re-run with one injected storage failure per mutating step; only a
// *successful* return is judged. Lane G (laneg_test.go): the
// gittuf.Repository API on real git.
//
// The oracle (oracle_test.go) reads refs, log and metadata raw.

const commitMsg = "policy"

var errNoop = errors.New("c12: nothing to do")

// backend = one repository under exploration.
type backend struct {
	st   world.Backend
	v    view
	fork func() (*backend, func())
}

func memBackend(ms *memstore.Store) *backend {
	return &backend{st: ms, v: memView{ms}, fork: func() (*backend, func()) { return memBackend(ms.Snapshot()), func() {} }}
}

type mWorld struct {
	c0, c1    githash.Hash
	unrelated githash.Hash
}

func must(err error) {
	if err != nil {
		panic(err)
	}
}

func buildWorld(b world.Backend) *mWorld {
	w := &mWorld{}
	t0 := world.Tree(b, map[string]string{"a": "0"})
	t1 := world.Tree(b, map[string]string{"a": "1"})
	w.c0 = world.Commit(b, t0, nil, "c0", nil)
	w.c1 = world.Commit(b, t1, []githash.Hash{w.c0}, "c1", nil)
	u := keys.Get("U")
	st := world.State(world.Envelope(world.Root(1, []tuf.Principal{u.TUFKey()}, 1, nil, 0), u), nil, nil)
	mt, err := st.Metadata.WriteTree(b)
	must(err)
	rt, err := b.WriteTree([]gitstore.TreeEntry{{Path: "metadata", ID: mt, Kind: gitstore.KindSubtree}})
	must(err)
	w.unrelated = world.Commit(b, rt, nil, "unrelated policy", nil)
	return w
}

func ruleFile(version uint64) any {
	p0 := keys.Get("P0")
	return world.Targets(version, []tuf.Principal{p0.TUFKey()}, []world.RuleSpec{{Name: "protect-main", Patterns: []string{"git:" + mainRef}, Principals: []string{p0.KeyID}, Threshold: 1}})
}

// publishStaged points the policy ref at the staging tip and records it,
// without any validation (start states must not depend on Apply).
func publishStaged(b world.Backend) {
	tip, err := b.GetReference(stagingRef)
	must(err)
	must(b.SetReference(policyRef, tip))
	must(rsl.NewReferenceEntry(policyRef, tip).Commit(b, false))
}

var mStarts = []string{"empty", "applied1", "applied2"}

func startOn(b world.Backend, name string) *mWorld {
	w := buildWorld(b)
	r0, r1, t0, p0 := keys.Get("R0"), keys.Get("R1"), keys.Get("T0"), keys.Get("P0")
	if name == "empty" {
		return w
	}
	root := world.Root(1, []tuf.Principal{r0.TUFKey()}, 1, []tuf.Principal{t0.TUFKey()}, 1)
	st := world.State(world.Envelope(root, r0), world.Envelope(ruleFile(1), t0), nil)
	must(st.Commit(b, commitMsg, true, false))
	publishStaged(b)
	must(world.Record(b, mainRef, w.c0, p0))
	switch name {
	case "applied1":
	case "applied2", "applied-thr2":
		must(editRoot(r0, func(rm tuf.RootMetadata) error { return rm.AddRootPrincipal(r1.TUFKey()) })(b))
		publishStaged(b)
		if name == "applied-thr2" {
			must(editRoot(r0, func(rm tuf.RootMetadata) error { return rm.UpdateRootThreshold(2) })(b))
			must(signRoot(r1)(b))
			publishStaged(b)
		}
	default:
		panic("unknown start " + name)
	}
	return w
}

// ---- operations (generic over the storage backend) ----

type op struct {
	Name string
	// Kind: init, edit-root, edit-rules, sign-root, sign-rules, stage, apply,
	// discard, tamper-policy-ref, tamper-staging-ref, tamper-log, and the g-*
	// kinds of lane G.
	Kind   string
	signer *keys.Key
	run    func(b world.Backend) error
	runG   func(r *gittuf.Repository) error
}

func loadStaged(b gitstore.Storer) (*policy.State, error) {
	// exactly what every API mutator does
	return policy.LoadCurrentState(world.Ctx, b, stagingRef, policyopts.BypassRSL())
}

// editRoot mirrors gittuf.Repository.updateRootMetadata without the
// signer-authorisation gate of loadRootMetadata (that gate is lane G's
// subject): mutate with the real mutator, bump the version, wrap in a fresh
// envelope signed by k only, commit to staging with a log entry.
func editRoot(k *keys.Key, mutate func(tuf.RootMetadata) error) func(b world.Backend) error {
	return func(b world.Backend) error {
		st, err := loadStaged(b)
		if err != nil {
			return err
		}
		rm, err := st.GetRootMetadata(true)
		if err != nil {
			return err
		}
		if err := mutate(rm); err != nil {
			return err
		}
		rm.IncrementVersion()
		env, err := sdsse.CreateEnvelope(rm)
		if err != nil {
			return err
		}
		env, err = sdsse.SignEnvelope(world.Ctx, env, keys.Signer{K: k})
		if err != nil {
			return err
		}
		st.Metadata.RootEnvelope = env
		return st.Commit(b, commitMsg, true, false)
	}
}

func editRules(k *keys.Key, mutate func(st *policy.State, tm tuf.TargetsMetadata) error) func(b world.Backend) error {
	return func(b world.Backend) error {
		st, err := loadStaged(b)
		if err != nil {
			return err
		}
		if !st.HasTargetsRole(policy.TargetsRoleName) {
			return policy.ErrMetadataNotFound
		}
		tm, err := st.GetTargetsMetadata(policy.TargetsRoleName, true)
		if err != nil {
			return err
		}
		if err := mutate(st, tm); err != nil {
			return err
		}
		tm.IncrementVersion()
		env, err := sdsse.CreateEnvelope(tm)
		if err != nil {
			return err
		}
		env, err = sdsse.SignEnvelope(world.Ctx, env, keys.Signer{K: k})
		if err != nil {
			return err
		}
		st.Metadata.TargetsEnvelope = env
		return st.Commit(b, commitMsg, true, false)
	}
}

func signRoot(k *keys.Key) func(b world.Backend) error {
	return func(b world.Backend) error {
		st, err := loadStaged(b)
		if err != nil {
			return err
		}
		env, err := sdsse.SignEnvelope(world.Ctx, st.Metadata.RootEnvelope, keys.Signer{K: k})
		if err != nil {
			return err
		}
		st.Metadata.RootEnvelope = env
		return st.Commit(b, commitMsg, true, false)
	}
}

func signRules(k *keys.Key) func(b world.Backend) error {
	return func(b world.Backend) error {
		st, err := loadStaged(b)
		if err != nil {
			return err
		}
		if !st.HasTargetsRole(policy.TargetsRoleName) {
			return policy.ErrMetadataNotFound
		}
		env, err := sdsse.SignEnvelope(world.Ctx, st.Metadata.TargetsEnvelope, keys.Signer{K: k})
		if err != nil {
			return err
		}
		st.Metadata.TargetsEnvelope = env
		return st.Commit(b, commitMsg, true, false)
	}
}

func hashOf(s string) githash.Hash {
	h, err := githash.NewHash(s)
	must(err)
	return h
}

func menuM(o obs, w *mWorld, thorough bool) []op {
	ops := []op{}
	// quick tier: signer/argument combinations whose signer class (in the old
	// root? in the new root?) is already represented by another operation of
	// the menu are left to the thorough tier
	thoroughOnly := map[string]bool{"init-root(U)": true, "init-rules/U": true, "remove-root-key(R0)/U": true, "remove-root-key(R1)/R1": true,
		"remove-root-key(R1)/U": true, "root-threshold(2)/U": true, "add-global-rule/R1": true, "add-global-rule/U": true,
		"sign-rules/T0": true, "tamper:log(staging->first-policy)": true}
	add := func(name, kind string, k *keys.Key, run func(b world.Backend) error) {
		if !thorough && thoroughOnly[name] {
			return
		}
		ops = append(ops, op{Name: name, Kind: kind, signer: k, run: run})
	}
	rootSigners := []*keys.Key{keys.Get("R0"), keys.Get("R1"), keys.Get("U")}
	ruleSigners := []*keys.Key{keys.Get("T0"), keys.Get("U")}
	r0, r1, t0 := keys.Get("R0"), keys.Get("R1"), keys.Get("T0")

	if o.S == "" {
		for _, k := range []*keys.Key{r0, keys.Get("U")} {
			k := k
			add("init-root("+k.Name+")", "init", k, func(b world.Backend) error {
				root := world.Root(1, []tuf.Principal{k.TUFKey()}, 1, []tuf.Principal{t0.TUFKey()}, 1)
				return world.State(world.Envelope(root, k), nil, nil).Commit(b, commitMsg, true, false)
			})
		}
	}
	for _, k := range ruleSigners {
		k := k
		add("init-rules/"+k.Name, "edit-rules", k, func(b world.Backend) error {
			st, err := loadStaged(b)
			if err != nil {
				return err
			}
			if st.HasTargetsRole(policy.TargetsRoleName) {
				return errors.New("cannot reinitialize")
			}
			st.Metadata.TargetsEnvelope = world.Envelope(ruleFile(1), k)
			return st.Commit(b, commitMsg, true, false)
		})
	}
	for _, k := range rootSigners {
		k := k
		add("add-root-key(R1)/"+k.Name, "edit-root", k, editRoot(k, func(rm tuf.RootMetadata) error { return rm.AddRootPrincipal(r1.TUFKey()) }))
		add("remove-root-key(R0)/"+k.Name, "edit-root", k, editRoot(k, func(rm tuf.RootMetadata) error { return rm.DeleteRootPrincipal(r0.KeyID) }))
		add("remove-root-key(R1)/"+k.Name, "edit-root", k, editRoot(k, func(rm tuf.RootMetadata) error { return rm.DeleteRootPrincipal(r1.KeyID) }))
		add("root-threshold(2)/"+k.Name, "edit-root", k, editRoot(k, func(rm tuf.RootMetadata) error { return rm.UpdateRootThreshold(2) }))
		if thorough {
			add("root-threshold(1)/"+k.Name, "edit-root", k, editRoot(k, func(rm tuf.RootMetadata) error { return rm.UpdateRootThreshold(1) }))
		}
		add("add-global-rule/"+k.Name, "edit-root", k, editRoot(k, func(rm tuf.RootMetadata) error {
			return rm.AddGlobalRule(tufv01.NewGlobalRuleThreshold("g-main", []string{"git:" + mainRef}, 1))
		}))
		add("sign-root/"+k.Name, "sign-root", k, signRoot(k))
	}
	for _, k := range ruleSigners {
		k := k
		add("add-rule/"+k.Name, "edit-rules", k, editRules(k, func(st *policy.State, tm tuf.TargetsMetadata) error {
			if st.HasRuleName("protect-feat") {
				return tuf.ErrDuplicatedRuleName
			}
			return tm.AddRule("protect-feat", []string{keys.Get("P0").KeyID}, []string{"git:refs/heads/feat"}, 1)
		}))
		add("sign-rules/"+k.Name, "sign-rules", k, signRules(k))
	}
	// StagePolicy: record the staging ref as it is (skipped when the latest
	// entry already names it, like the API's duplicate check)
	add("stage", "stage", nil, func(b world.Backend) error {
		if o.S == "" {
			return errors.New("no staging ref")
		}
		if t, i := o.latest(stagingRef); i >= 0 && t == o.S {
			return errNoop
		}
		return rsl.NewReferenceEntry(stagingRef, hashOf(o.S)).Commit(b, false)
	})
	add("apply", "apply", nil, func(b world.Backend) error { return policy.Apply(world.Ctx, b, false) })
	add("discard", "discard", nil, func(b world.Backend) error { return policy.Discard(b) })

	// tampering
	first := ""
	if pe := o.entriesFor(policyRef); len(pe) > 0 {
		first = pe[0].Target
	}
	for _, ref := range []string{policyRef, stagingRef} {
		ref := ref
		short, kind := "policy", "tamper-policy-ref"
		if ref == stagingRef {
			short, kind = "staging", "tamper-staging-ref"
		}
		cur := o.Refs[ref]
		if first != "" && cur != first {
			add("tamper:"+short+":=first-policy", kind, nil, func(b world.Backend) error { return b.SetReference(ref, hashOf(first)) })
		}
		if cur != w.unrelated.String() {
			add("tamper:"+short+":=unrelated", kind, nil, func(b world.Backend) error { return b.SetReference(ref, w.unrelated) })
		}
		if cur != "" {
			add("tamper:"+short+":=deleted", kind, nil, func(b world.Backend) error { return b.DeleteReference(ref) })
		}
		// log entries without moving the ref
		tgt, i := o.latest(ref)
		if ref == policyRef && cur != "" && (i < 0 || tgt != cur) {
			// (for staging this is the "stage" operation)
			add("tamper:log("+short+"->current)", "tamper-log", nil, func(b world.Backend) error {
				return rsl.NewReferenceEntry(ref, hashOf(cur)).Commit(b, false)
			})
		}
		if i < 0 || tgt != w.unrelated.String() {
			add("tamper:log("+short+"->unrelated)", "tamper-log", nil, func(b world.Backend) error {
				return rsl.NewReferenceEntry(ref, w.unrelated).Commit(b, false)
			})
		}
		if first != "" && (i < 0 || tgt != first) {
			add("tamper:log("+short+"->first-policy)", "tamper-log", nil, func(b world.Backend) error {
				return rsl.NewReferenceEntry(ref, hashOf(first)).Commit(b, false)
			})
		}
	}
	return ops
}

// ---- judging one transition ----

var hexRe = regexp.MustCompile(`[0-9a-f]{12,}`)

func errClass(err error) string {
	switch {
	case err == nil:
		return "ok"
	case errors.Is(err, errNoop):
		return "noop"
	case errors.Is(err, policy.ErrInvalidPolicy):
		return "refused:ref-out-of-sync-with-log"
	case errors.Is(err, policy.ErrNotAncestor):
		return "refused:not-ancestor"
	}
	s := err.Error()
	for _, p := range []struct{ sub, cls string }{
		{"failed to load current state", "refused:staging-load-failed"},
		{"staged policy is invalid", "refused:staged-state-invalid"},
		{"failed to get policy staging reference", "refused:no-staging-ref"},
		{"unauthorized key", "refused:unauthorized-key"},
		{"cannot reinitialize", "refused:cannot-reinitialize"},
	} {
		if strings.Contains(s, p.sub) {
			return p.cls
		}
	}
	s = hexRe.ReplaceAllString(s, "#")
	if len(s) > 60 {
		s = s[:60]
	}
	return "failed:" + s
}

type verdict struct {
	sig, what string
}

// judge evaluates the invariant for one executed operation. bk is the
// repository AFTER the operation.
func judge(bk *backend, w *mWorld, before, after obs, o op, err error, col *evid.Collector, lane string) verdict {
	v := bk.v
	added, ok := appended(before, after)
	if !ok {
		return verdict{"C12:log-not-append-only:" + o.Kind, fmt.Sprintf("%s: the log before the operation is not a prefix of the log after it", o.Name)}
	}
	polAdded := []logEntry{}
	for _, e := range added {
		if e.Kind == "reference" && e.Ref == policyRef {
			polAdded = append(polAdded, e)
		}
	}
	switch o.Kind {
	case "tamper-policy-ref", "tamper-staging-ref", "tamper-log":
		col.Inc("tamper_ops")
		return verdict{}
	case "apply":
	default:
		// the policy ref only changes inside a successful Apply
		if after.P != before.P {
			return verdict{"C12:policy-ref-moved-outside-apply:" + o.Kind, fmt.Sprintf("%s (err=%v) moved the policy ref %s -> %s", o.Name, err, before.P, after.P)}
		}
		if len(polAdded) > 0 {
			return verdict{"C12:policy-entry-recorded-outside-apply:" + o.Kind, fmt.Sprintf("%s (err=%v) appended a policy entry", o.Name, err)}
		}
		if o.Kind == "discard" {
			if err != nil {
				col.Inc("discard_failed")
				return verdict{}
			}
			col.Inc("discard_ok")
			// after Discard staging = policy (or absent)
			if after.S != before.P {
				return verdict{"C12:discard-did-not-restore-staging", fmt.Sprintf("after Discard staging=%q but policy=%q", after.S, before.P)}
			}
			return verdict{}
		}
		if err != nil {
			col.Inc("edits_failed")
		} else {
			col.Inc("edits_ok")
		}
		return verdict{}
	}

	// ---- Apply ----
	ps, ss := before.syncState(policyRef), before.syncState(stagingRef)
	oos := outOfSync(ps) || outOfSync(ss)
	which := "policy-" + ps
	if !outOfSync(ps) {
		which = "staging-" + ss
	}
	if err != nil {
		col.Inc("apply_refused")
		if after.P != before.P {
			return verdict{"C12:failed-apply-moved-policy-ref", fmt.Sprintf("Apply returned %v but the policy ref went %s -> %s", err, before.P, after.P)}
		}
		if len(polAdded) > 0 {
			return verdict{"C12:failed-apply-recorded-policy-entry", fmt.Sprintf("Apply returned %v but appended a policy entry", err)}
		}
		if oos {
			col.Inc("apply_refused_out_of_sync")
			col.Class("%s/apply-precondition/%s/refused", lane, which)
			if d := sameRefs(before.Refs, after.Refs); d != "" {
				return verdict{"C12:refused-out-of-sync-apply-changed-state:" + which, fmt.Sprintf("Apply refused (%v) with %s, yet changed %s", err, which, d)}
			}
		}
		return verdict{}
	}
	col.Inc("apply_ok")
	if oos {
		return verdict{"C12:apply-accepted-out-of-sync-refs:" + which, fmt.Sprintf("Apply returned nil although %s (policy ref %q, latest policy entry %v; staging ref %q)", which, before.P, lastTarget(before, policyRef), before.S)}
	}
	if after.P == "" || after.P != after.S {
		return verdict{"C12:apply-ok-policy-tip-is-not-staged-tip", fmt.Sprintf("after a successful Apply policy=%q staging=%q", after.P, after.S)}
	}
	if before.P != "" && !isAncestorOrEqual(v, before.P, after.P) {
		return verdict{"C12:apply-ok-new-tip-not-descendant", fmt.Sprintf("Apply moved the policy ref from %s to %s which does not descend from it", before.P, after.P)}
	}
	if len(polAdded) != 1 || polAdded[0].Target != after.P || added[len(added)-1].ID != polAdded[0].ID {
		return verdict{"C12:apply-ok-without-policy-entry-naming-new-tip", fmt.Sprintf("successful Apply left policy=%s but appended policy entries %v (all appended: %v)", after.P, polAdded, added)}
	}
	for _, e := range added {
		if e.Kind != "reference" || (e.Ref != policyRef && e.Ref != stagingRef) {
			return verdict{"C12:apply-appended-foreign-entry", fmt.Sprintf("Apply appended %v", e)}
		}
	}
	if after.P != before.P {
		for _, f := range []string{"metadata/root.json", "metadata/targets.json"} {
			a, aok := v.File(after.P, f)
			s, sok := v.File(before.S, f)
			if aok != sok || string(a) != string(s) {
				return verdict{"C12:apply-published-metadata-differs-from-staged:" + f, fmt.Sprintf("%s of the published commit %s differs from the staged commit %s", f, after.P, before.S)}
			}
		}
	}

	// the published state passes full internal verification and is accepted
	// by subsequent verification of the repository
	col.Inc("published_states_checked")
	var prev *meta
	if before.P != "" {
		m, e := readMeta(v, before.P)
		if e != nil {
			return verdict{"C12:apply-on-unreadable-policy-state", e.Error()}
		}
		prev = m
	}
	next, e := readMeta(v, after.P)
	if e != nil {
		return verdict{"C12:apply-published-unreadable-state", e.Error()}
	}
	cause := rejectCause(prev, next)
	_, loadErr := policy.LoadCurrentState(world.Ctx, bk.st, policyRef)
	// one authorised push on a copy, then full verification of that reference
	fk, done := bk.fork()
	defer done()
	target := w.c0
	if _, i := after.latest(mainRef); i >= 0 {
		target = w.c1
	}
	var verifyErr error
	if next.targetsEnv == nil {
		// a policy without a rule file authorises nobody (FindVerifiersForPath
		// returns ErrMetadataNotFound for every path): there is no "authorised
		// push" to verify; only LoadCurrentState is required of such a state
		col.Inc("published_without_rule_file")
	} else if e := world.Record(fk.st, mainRef, target, keys.Get("P0")); e != nil {
		verifyErr = fmt.Errorf("harness: cannot record push: %w", e)
	} else {
		_, verifyErr = policy.NewPolicyVerifier(fk.st).VerifyRefFull(world.Ctx, mainRef)
	}
	switch {
	case loadErr != nil:
		col.Inc("published_rejected")
		sig := "C12:apply-published-state-rejected-by-verification:"
		if cause != "" {
			sig += cause
		} else if cc, last, _ := chainCause(v, after); cc != "" && !last {
			sig = "C12:apply-on-rejected-policy-history:" + cc
		} else {
			sig += "unexplained"
		}
		vr := "also rejects"
		if verifyErr == nil {
			vr = "ACCEPTS"
		}
		if next.targetsEnv == nil {
			vr = "not run (no rule file)"
		}
		return verdict{sig, fmt.Sprintf("Apply returned nil and published %s, but LoadCurrentState(policy) then fails: %v; VerifyRefFull(main) after one authorised push %s", after.P[:10], loadErr, vr)}
	case cause != "":
		return verdict{"C12:apply-published-state-failing-oracle-accepted-by-LoadState:" + cause, fmt.Sprintf("published %s: oracle says %s, LoadCurrentState accepts", after.P, cause)}
	case verifyErr != nil:
		col.Inc("published_rejected")
		return verdict{"C12:apply-published-state-rejected-by-VerifyRefFull:" + errClass(verifyErr), fmt.Sprintf("published %s loads, but VerifyRefFull(main) after one authorised push fails: %v", after.P, verifyErr)}
	}
	col.Inc("published_accepted")
	return verdict{}
}

func lastTarget(o obs, ref string) string {
	t, i := o.latest(ref)
	if i < 0 {
		return "<none>"
	}
	return t
}

// ---- lane F: one injected storage failure inside Apply ----

var faultNoted bool

var mutatingSteps = map[string]bool{"SetReference": true, "DeleteReference": true, "ResetDueToError": true, "Commit.cas": true}

func countMutatingSteps(ms *memstore.Store) int {
	s := ms.Snapshot()
	n := 0
	s.Hook = func(step string, _ ...string) error {
		if mutatingSteps[step] {
			n++
		}
		return nil
	}
	_ = policy.Apply(world.Ctx, s, false)
	return n
}

func applyWithFault(ms *memstore.Store, k int) (*memstore.Store, string, error) {
	s := ms.Snapshot()
	n := 0
	failedAt := ""
	s.Hook = func(step string, args ...string) error {
		if mutatingSteps[step] {
			n++
			if n == k {
				failedAt = step + "(" + strings.Join(args[:1], "") + ")"
				return errors.New("injected storage failure")
			}
		}
		return nil
	}
	err := policy.Apply(world.Ctx, s, false)
	s.Hook = nil
	return s, failedAt, err
}

// faultSeam re-runs a successful Apply with one failure per mutating step.
// Only a nil return is judged (a success must still satisfy the whole
// invariant); an error return that leaves the policy ref moved is counted and
// noted, it belongs to the storage-failure property (C16), not to C12.
func faultSeam(ms *memstore.Store, w *mWorld, before obs, col *evid.Collector) (verdict, int) {
	n := countMutatingSteps(ms)
	for k := 1; k <= n; k++ {
		s, failedAt, err := applyWithFault(ms, k)
		after := observe(memView{s})
		col.Inc("fault_runs")
		col.Inc("evaluations")
		if err == nil {
			col.Inc("fault_swallowed")
			col.Class("F/apply/fault@%s/returned-nil", failedAt)
			vd := judge(memBackend(s), w, before, after, op{Name: "apply", Kind: "apply"}, nil, col, "F")
			if vd.sig != "" {
				return verdict{vd.sig + ":storage-failure-swallowed", fmt.Sprintf("with a storage failure injected at %s Apply still returned nil: %s", failedAt, vd.what)}, k
			}
			continue
		}
		col.Inc("fault_reported")
		moved := after.P != before.P
		_, oi := before.latest(policyRef)
		_, ni := after.latest(policyRef)
		which := "later-apply"
		if before.P == "" {
			which = "first-apply"
		}
		if moved || oi != ni {
			col.Inc("fault_failed_apply_left_policy_ref_or_entry")
			col.Class("F/%s/fault@%s/error-returned/policy-ref-or-entry-left-changed", which, failedAt)
			if !faultNoted {
				faultNoted = true
				col.Note("not judged (storage failures are outside C12's quantifier, C16's subject): with an injected failure at %s a %s returns the error but leaves policy ref %q -> %q, policy entries %d -> %d", failedAt, which, before.P, after.P, oi, ni)
			}
		} else {
			col.Class("F/%s/fault@%s/error-returned/policy-unchanged", which, failedAt)
		}
	}
	return verdict{}, 0
}

// ---- search ----

// mine distributes work items over the shards. With several shards, shard 0
// is reserved for the dedup cross-check (two extra searches) and takes no
// work items, so that no shard is systematically the slowest.
func mine(k int) bool {
	i, n := evid.Shard()
	if n == 1 {
		return true
	}
	return i != 0 && k%(n-1) == i-1
}

type replay struct {
	Lane  string   `json:"lane"`
	Start string   `json:"start"`
	Ops   []string `json:"ops"`
	Fault int      `json:"fault,omitempty"`
}

type mNode struct {
	ms   *memstore.Store
	o    obs
	path []string
}

func kindOf(name string) string { return strings.SplitN(strings.SplitN(name, "(", 2)[0], "/", 2)[0] }

// stepM runs one lane-M operation on a snapshot of n.
func stepM(n mNode, w *mWorld, o op, col *evid.Collector) (*memstore.Store, obs, verdict, error) {
	ms := n.ms.Snapshot()
	err := runRecovered(func() error { return o.run(ms) }, col)
	after := observe(memView{ms})
	col.Inc("transitions")
	col.Inc("evaluations")
	signer := ""
	if o.signer != nil {
		signer = "/signer=" + o.signer.Name
	}
	col.Class("M/%s%s/%s", kindOf(o.Name), signer, errClass(err))
	vd := judge(memBackend(ms), w, n.o, after, o, err, col, "M")
	return ms, after, vd, err
}

func findOp(ops []op, name string) *op {
	for i := range ops {
		if ops[i].Name == name {
			return &ops[i]
		}
	}
	return nil
}

func replayM(r replay, col *evid.Collector) {
	ms := memstore.New()
	w := startOn(ms, r.Start)
	n := mNode{ms: ms, o: observe(memView{ms})}
	for i, name := range r.Ops {
		o := findOp(menuM(n.o, w, true), name)
		if o == nil {
			col.Fail("replay: operation not in the menu of its state: " + name)
			return
		}
		if i == len(r.Ops)-1 && r.Fault > 0 {
			s, failedAt, err := applyWithFault(n.ms, r.Fault)
			after := observe(memView{s})
			col.Inc("evaluations")
			if err == nil {
				if vd := judge(memBackend(s), w, n.o, after, *o, nil, col, "F"); vd.sig != "" {
					col.Violation(vd.sig+":storage-failure-swallowed", fmt.Sprintf("with a storage failure injected at %s Apply still returned nil: %s", failedAt, vd.what), r)
				}
			}
			return
		}
		ms2, after, vd, _ := stepM(n, w, *o, col)
		if vd.sig != "" {
			col.Violation(vd.sig, vd.what, replay{Lane: "M", Start: r.Start, Ops: r.Ops[:i+1]})
			return
		}
		n = mNode{ms: ms2, o: after}
	}
}

// witnesses: first (shortest) path per signature seen by the cross-check
// shard's search; they are re-run on a real git repository.
var witnesses = map[string]replay{}

// confirmOnGit runs a lane-M operation path on a real git repository (same
// fixed clock and identity, hence the same object ids) and returns the
// signature the oracle reports there, reading everything through git plumbing.
func confirmOnGit(t *testing.T, start string, path []string) (string, error) {
	rsl.ResetCacheForVerif()
	defer rsl.ResetCacheForVerif()
	gb := gitback.New(t, false)
	defer os.RemoveAll(gb.Dir)
	w := startOn(gb, start)
	v := &gitView{gb: gb, commits: map[string]rawCommit{}}
	var bk *backend
	bk = &backend{st: gb, v: v, fork: func() (*backend, func()) { return bk, func() {} }} // last step: the push may be recorded in place
	scratch := evid.New("C12-confirm")
	o := observe(v)
	for i, name := range path {
		op := findOp(menuM(o, w, true), name)
		if op == nil {
			return "", fmt.Errorf("operation %s is not in the menu of the git-side state", name)
		}
		err := op.run(gb)
		v.loaded = false
		after := observe(v)
		if i < len(path)-1 {
			// intermediate steps were judged clean in lane M; only the ref/log part is cheap enough to repeat
			if after.LogOK != "" {
				return "", errors.New(after.LogOK)
			}
			o = after
			continue
		}
		return judge(bk, w, o, after, *op, err, scratch, "M").sig, nil
	}
	return "", nil
}

// searchM explores one start state. keyFn decides which states are merged.
// It returns the canonical keys reached per depth (for the dedup cross-check).
func searchM(start string, depth int, thorough bool, exact bool, item *int, col *evid.Collector, quiet bool) []map[string]bool {
	ms0 := memstore.New()
	w := startOn(ms0, start)
	root := mNode{ms: ms0, o: observe(memView{ms0})}
	keyOf := func(n mNode) [20]byte {
		if exact {
			return sha1.Sum([]byte(exactKey(n.o)))
		}
		return sha1.Sum([]byte(canonKey(memView{n.ms}, n.o)))
	}
	seen := map[[20]byte]bool{keyOf(root): true}
	reached := []map[string]bool{{canonKey(memView{ms0}, root.o): true}}
	frontier := []mNode{root}
	if !quiet {
		col.Inc("states")
	}
	scratch := col
	if quiet {
		scratch = evid.New("C12-crosscheck")
	}
	nTrans, applySamples := 0, 0
	for d := 0; d < depth && len(frontier) > 0; d++ {
		next := []mNode{}
		level := map[string]bool{}
		for _, n := range frontier {
			for _, o := range menuM(n.o, w, thorough) {
				if d == 0 && item != nil {
					*item++
					if !mine(*item) {
						continue
					}
				}
				if col.Expired() {
					return reached
				}
				nTrans++
				if nTrans%4000 == 0 {
					rsl.ResetCacheForVerif()
				}
				ms, after, vd, opErr := stepM(n, w, o, scratch)
				path := append(append([]string(nil), n.path...), o.Name)
				if vd.sig != "" {
					if !quiet {
						col.Violation(vd.sig, "after "+strings.Join(path, " > ")+": "+vd.what, replay{Lane: "M", Start: start, Ops: path})
					} else if !exact {
						if _, ok := witnesses[vd.sig]; !ok {
							witnesses[vd.sig] = replay{Lane: "M", Start: start, Ops: path}
						}
					}
					continue
				}
				if !quiet && o.Kind == "apply" && opErr == nil {
					// successful Apply: lane F
					if fv, k := faultSeam(n.ms, w, n.o, col); fv.sig != "" {
						col.Violation(fv.sig, "after "+strings.Join(path, " > ")+": "+fv.what, replay{Lane: "M", Start: start, Ops: path, Fault: k})
					}
				}
				nn := mNode{ms: ms, o: after, path: path}
				if quiet {
					level[canonKey(memView{ms}, after)] = true
				}
				k := keyOf(nn)
				if seen[k] {
					continue
				}
				seen[k] = true
				if !quiet {
					col.Inc("states")
					isApply := o.Kind == "apply" && after.P != n.o.P
					if isApply {
						applySamples++
					}
					if len(path) == depth || (isApply && applySamples <= 3) {
						col.Sample(map[string]any{"lane": "M", "start": start, "ops": path, "policy_entries": len(after.entriesFor(policyRef)), "log_len": len(after.Log)})
					}
				}
				if len(path) < depth {
					next = append(next, nn)
				}
			}
		}
		reached = append(reached, level)
		frontier = next
	}
	return reached
}

func TestC12(t *testing.T) {
	col := evid.New("C12")
	defer func() {
		if err := col.Write(); err != nil {
			t.Fatal(err)
		}
	}()
	thorough := evid.Thorough()
	depthM, depthG := 4, 3
	if thorough {
		// depth 6 with the full alphabet is ~6e8 transitions (measured growth
		// ~x24 per level): out of reach; C12_DEPTH_M=6 forces it (time-capped)
		depthM, depthG = 5, 4
	}
	if v := os.Getenv("C12_DEPTH_M"); v != "" {
		fmt.Sscan(v, &depthM)
	}
	if v := os.Getenv("C12_DEPTH_G"); v != "" {
		fmt.Sscan(v, &depthG)
	}
	col.Bound("depth_lane_M", depthM)
	col.Bound("depth_lane_G", depthG)
	col.Rule("breadth-first search over policy-lifecycle operation sequences. Lane M (depth %d, starts %v): menu regenerated in every state = staged-metadata edits with the real tuf mutators and dsse helpers (add/remove root key, root threshold, global rule, rule, initialise) each signed by one key of {R0,R1,U} resp. {T0,U}, extra signatures, stage, policy.Apply, policy.Discard (quick tier: one representative signer per signer class, see thoroughOnly), and tampering (policy/staging ref := first policy commit | unrelated policy commit | deleted; log entry for either ref naming its current tip | the first policy commit | the unrelated commit without moving the ref). States are merged on a canonical key (both tips, ordered targets of all policy entries, latest staging entry and the number of policy entries before it; commits renamed by tree+parents+message); the merge is cross-checked against exact ref-map dedup at a smaller depth. Lane F: every successful Apply re-run with one injected storage failure per mutating step (only nil returns judged). Lane G (depth %d): gittuf.Repository API on real git with file-based ssh signers. The invariant is evaluated after every operation incl. failed ones by a raw reader of refs, log and metadata; a class is (lane, operation, signer, outcome class)", depthM, mStarts, depthG)
	{
		ms := memstore.New()
		w := startOn(ms, "applied2")
		col.Bound("alphabet_lane_M", len(menuM(observe(memView{ms}), w, thorough)))
	}
	col.Bound("alphabet_lane_G", len(menuG(thorough)))
	col.Assume("memstore stands in for git in lane M (bound to real git by C03's trace conformance and by lane G running the same Apply/Discard code on real repositories); ssh ed25519 keys only; no controller/network repositories, no hooks, no GitHub apps; entries and policy commits are unsigned (Apply does not look at their signatures); one writer, no remote; storage failures (lane F) are not part of the property's quantifier and only a nil return of Apply is judged under them")

	if rf := evid.ReplayFile(); rf != "" {
		var r replay
		if err := evid.LoadReplay(rf, &r); err != nil {
			col.Fail(err.Error())
			return
		}
		switch r.Lane {
		case "M":
			replayM(r, col)
		case "G":
			replayG(t, r, col)
		default:
			col.Fail("replay: unknown lane " + r.Lane)
		}
		return
	}

	item := 0
	// lane G first, inside its own time slice (40% of the worker's cap) so that
	// neither lane can starve the other on a loaded machine
	if os.Getenv("C12_SKIP_G") == "" {
		var stop time.Time
		if d, _ := strconv.Atoi(os.Getenv("VERIF_DEADLINE_S")); d > 0 {
			stop = time.Now().Add(time.Duration(d) * time.Second * 4 / 10)
		}
		searchG(t, depthG, thorough, &item, col, stop)
	}
	starts := mStarts
	if thorough {
		starts = append(append([]string(nil), mStarts...), "applied-thr2")
	}
	exact := os.Getenv("C12_EXACT") != ""
	for _, start := range starts {
		searchM(start, depthM, thorough, exact, &item, col, false)
	}

	// dedup cross-check: the canonical merge must reach exactly the canonical
	// keys that exact ref-map dedup reaches (one shard does it).
	if i, _ := evid.Shard(); i == 0 && !exact {
		cd := 3
		if thorough {
			cd = 4
		}
		if cd > depthM {
			cd = depthM
		}
		for _, start := range []string{"applied1", "applied2"} {
			a := searchM(start, cd, thorough, false, nil, col, true)
			b := searchM(start, cd, thorough, true, nil, col, true)
			if col.Expired() {
				break
			}
			ua, ub := map[string]bool{}, map[string]bool{}
			for _, l := range a {
				for k := range l {
					ua[k] = true
				}
			}
			for _, l := range b {
				for k := range l {
					ub[k] = true
				}
			}
			for k := range ub {
				if !ua[k] {
					col.Fail(fmt.Sprintf("canonical state merge is unsound: start %s within depth %d: state %s is only reached with exact ref-map dedup", start, cd, k))
					return
				}
			}
			if len(ua) != len(ub) {
				col.Fail(fmt.Sprintf("canonical state merge is unsound: start %s within depth %d: %d canonical states with merging, %d with exact dedup", start, cd, len(ua), len(ub)))
				return
			}
			col.Add("dedup_crosscheck_states", int64(len(ua)))
		}
		// lane M findings are re-run on a real git repository (same clock and
		// identity, hence same object ids) and must get the same verdict there
		sigs := make([]string, 0, len(witnesses))
		for sig := range witnesses {
			sigs = append(sigs, sig)
		}
		sort.Strings(sigs)
		for _, sig := range sigs {
			if col.Expired() {
				break
			}
			wr := witnesses[sig]
			gsig, err := confirmOnGit(t, wr.Start, wr.Ops)
			switch {
			case err != nil:
				col.Fail("lane M finding could not be re-run on real git: " + err.Error())
				return
			case gsig != sig:
				col.Fail(fmt.Sprintf("lane M finding %s (start %s, ops %v) is not reproduced on real git (got %q): memstore and git disagree", sig, wr.Start, wr.Ops, gsig))
				return
			}
			col.Inc("violations_confirmed_on_real_git")
			col.Add("traces_validated_against_impl", int64(len(wr.Ops)))
			col.Note("%s: start %s, operations %v re-run on a real git repository (read back through plumbing) give the same verdict", sig, wr.Start, wr.Ops)
		}
	}

}
