package c12

import (
	"bytes"
	"crypto/sha1"
	"encoding/base64"
	"encoding/hex"
	"encoding/json"
	"fmt"
	"sort"
	"strings"

	"github.com/gittuf/gittuf/verif/keys"
	"github.com/gittuf/gittuf/verif/memstore"
	"github.com/gittuf/gittuf/verif/world"
	"github.com/hiddeco/sshsig"
)

// This file is the oracle side of C12. Nothing here calls internal/policy or
// pkg/rsl: refs, commits, the log and the policy metadata are read raw
// (memstore internals in lane M, NUL/plain git plumbing in lane G), entry
// texts are parsed by world.ParseText, envelopes by encoding/json and
// signatures are checked with hiddeco/sshsig against the harness's own keys.

const (
	policyRef  = "refs/gittuf/policy"
	stagingRef = "refs/gittuf/policy-staging"
	rslRef     = "refs/gittuf/reference-state-log"
	mainRef    = "refs/heads/main"
)

type rawCommit struct {
	Tree    string
	Parents []string
	Message string
}

// view is the raw read access the oracle needs.
type view interface {
	Refs() map[string]string
	Commit(id string) (rawCommit, bool)
	File(commit, path string) ([]byte, bool)
}

type memView struct{ ms *memstore.Store }

func (v memView) Refs() map[string]string { return v.ms.RefsSnapshot() }

func (v memView) Commit(id string) (rawCommit, bool) {
	c, ok := v.ms.RawCommit(id)
	if !ok {
		return rawCommit{}, false
	}
	return rawCommit{Tree: c.Tree, Parents: c.Parents, Message: c.Message}, true
}

func (v memView) File(commit, path string) ([]byte, bool) {
	c, ok := v.ms.RawCommit(commit)
	if !ok {
		return nil, false
	}
	cur := c.Tree
	parts := strings.Split(path, "/")
	for i, p := range parts {
		kind, data, ok := v.ms.RawObject(cur)
		if !ok || kind != "tree" {
			return nil, false
		}
		next, isTree := findInRawTree(data, p)
		if next == "" {
			return nil, false
		}
		if i < len(parts)-1 && !isTree {
			return nil, false
		}
		cur = next
	}
	kind, data, ok := v.ms.RawObject(cur)
	if !ok || kind != "blob" {
		return nil, false
	}
	return data, true
}

// findInRawTree scans Git's binary tree encoding ("<mode> <name>\0<20 bytes>").
func findInRawTree(data []byte, name string) (string, bool) {
	for len(data) > 0 {
		sp := bytes.IndexByte(data, ' ')
		if sp < 0 {
			return "", false
		}
		mode := string(data[:sp])
		nul := bytes.IndexByte(data[sp+1:], 0)
		if nul < 0 {
			return "", false
		}
		n := string(data[sp+1 : sp+1+nul])
		rest := data[sp+1+nul+1:]
		if len(rest) < 20 {
			return "", false
		}
		id := fmt.Sprintf("%x", rest[:20])
		if n == name {
			return id, mode == "40000"
		}
		data = rest[20:]
	}
	return "", false
}

// ---- observation of refs + log ----

type logEntry struct {
	ID     string
	Kind   string
	Ref    string
	Target string
}

type obs struct {
	Refs  map[string]string
	P, S  string
	Log   []logEntry // oldest first
	LogOK string     // "" or why the raw log is not a well-formed chain
}

func observe(v view) obs {
	o := obs{Refs: v.Refs()}
	o.P, o.S = o.Refs[policyRef], o.Refs[stagingRef]
	cur := o.Refs[rslRef]
	seen := map[string]bool{}
	var rev []logEntry
	for cur != "" && !seen[cur] {
		seen[cur] = true
		c, ok := v.Commit(cur)
		if !ok {
			o.LogOK = "log walk reached a non-commit " + cur
			break
		}
		p := world.ParseText(c.Message)
		if !p.WellForm {
			o.LogOK = "entry " + cur + " is not a well-formed entry"
		}
		rev = append(rev, logEntry{ID: cur, Kind: p.Kind, Ref: p.Ref, Target: p.Target})
		if len(c.Parents) == 0 {
			break
		}
		if len(c.Parents) > 1 {
			o.LogOK = "entry " + cur + " has several parents"
		}
		cur = c.Parents[0]
	}
	for i := len(rev) - 1; i >= 0; i-- {
		o.Log = append(o.Log, rev[i])
	}
	return o
}

// latest returns the target of the latest reference entry for ref and its
// index in the log (-1 if none).
func (o obs) latest(ref string) (string, int) {
	for i := len(o.Log) - 1; i >= 0; i-- {
		if o.Log[i].Kind == "reference" && o.Log[i].Ref == ref {
			return o.Log[i].Target, i
		}
	}
	return "", -1
}

func (o obs) entriesFor(ref string) []logEntry {
	out := []logEntry{}
	for _, e := range o.Log {
		if e.Kind == "reference" && e.Ref == ref {
			out = append(out, e)
		}
	}
	return out
}

// syncState classifies ref tip against its latest log entry.
func (o obs) syncState(ref string) string {
	tip := o.Refs[ref]
	tgt, i := o.latest(ref)
	switch {
	case tip == "" && i < 0:
		return "absent"
	case tip != "" && i < 0:
		return "ref-without-entry"
	case tip == "" && i >= 0:
		return "entry-without-ref"
	case tip == tgt:
		return "in-sync"
	default:
		return "ref-differs-from-entry"
	}
}

func outOfSync(s string) bool {
	return s == "ref-without-entry" || s == "entry-without-ref" || s == "ref-differs-from-entry"
}

func sameRefs(a, b map[string]string) string {
	names := map[string]bool{}
	for k := range a {
		names[k] = true
	}
	for k := range b {
		names[k] = true
	}
	diff := []string{}
	for k := range names {
		if a[k] != b[k] {
			diff = append(diff, k)
		}
	}
	sort.Strings(diff)
	return strings.Join(diff, ",")
}

// appended returns the entries of after that are not in before; ok=false if
// before is not a prefix of after.
func appended(before, after obs) ([]logEntry, bool) {
	if len(after.Log) < len(before.Log) {
		return nil, false
	}
	for i := range before.Log {
		if before.Log[i].ID != after.Log[i].ID {
			return nil, false
		}
	}
	return after.Log[len(before.Log):], true
}

func isAncestorOrEqual(v view, anc, desc string) bool {
	if anc == desc {
		return true
	}
	seen := map[string]bool{}
	queue := []string{desc}
	for len(queue) > 0 {
		cur := queue[0]
		queue = queue[1:]
		if seen[cur] {
			continue
		}
		seen[cur] = true
		if cur == anc {
			return true
		}
		c, ok := v.Commit(cur)
		if !ok {
			continue
		}
		queue = append(queue, c.Parents...)
	}
	return false
}

// ---- canonical state ----

// canon renames a commit by (tree, canonical parents, message): independent of
// clocks, so equal in both lanes for equal content and shape.
func canon(v view, id string, memo map[string]string) string {
	if id == "" {
		return "-"
	}
	if s, ok := memo[id]; ok {
		return s
	}
	c, ok := v.Commit(id)
	if !ok {
		return "?" + id
	}
	parts := []string{c.Tree}
	for _, p := range c.Parents {
		parts = append(parts, canon(v, p, memo))
	}
	parts = append(parts, c.Message)
	sum := sha1.Sum([]byte(strings.Join(parts, "\x00")))
	s := hex.EncodeToString(sum[:8])
	memo[id] = s
	return s
}

// canonKey keeps every field an operation of the alphabet, Apply/Discard/
// ReconcileStaging/LoadState or the oracle can observe: both ref tips, the
// ordered targets of all policy entries (the chain LoadState verifies), the
// latest staging entry's target and how many policy entries precede it
// (LoadState verifies only those), and the entries of other refs.
func canonKey(v view, o obs) string {
	memo := map[string]string{}
	var b strings.Builder
	b.WriteString("P=" + canon(v, o.P, memo) + ";S=" + canon(v, o.S, memo) + ";")
	nPol := 0
	latestStaging, stagingAt := "", -1
	for _, e := range o.Log {
		if e.Kind != "reference" {
			b.WriteString("other:" + e.Kind + ";")
			continue
		}
		switch e.Ref {
		case policyRef:
			nPol++
			b.WriteString("pol:" + canon(v, e.Target, memo) + ";")
		case stagingRef:
			latestStaging, stagingAt = e.Target, nPol
		default:
			b.WriteString("ref:" + e.Ref + ";")
		}
	}
	if stagingAt >= 0 {
		b.WriteString(fmt.Sprintf("stg:%s@%d;", canon(v, latestStaging, memo), stagingAt))
	}
	return b.String()
}

func exactKey(o obs) string {
	names := make([]string, 0, len(o.Refs))
	for k := range o.Refs {
		names = append(names, k)
	}
	sort.Strings(names)
	var b strings.Builder
	for _, k := range names {
		b.WriteString(k + "=" + o.Refs[k] + ";")
	}
	return b.String()
}

// ---- independent reading of policy metadata ----

type rawEnvelope struct {
	PayloadType string `json:"payloadType"`
	Payload     string `json:"payload"`
	Signatures  []struct {
		KeyID string `json:"keyid"`
		Sig   string `json:"sig"`
	} `json:"signatures"`
}

type rawRole struct {
	PrincipalIDs []string `json:"principalIDs"`
	Threshold    int      `json:"threshold"`
}

type rawRoot struct {
	Version uint64             `json:"version"`
	Roles   map[string]rawRole `json:"roles"`
}

type rawTargets struct {
	Version uint64 `json:"version"`
}

type meta struct {
	rootEnv    *rawEnvelope
	root       rawRoot
	targetsEnv *rawEnvelope
	targets    rawTargets
}

func readEnvelope(b []byte) (*rawEnvelope, []byte, error) {
	e := &rawEnvelope{}
	if err := json.Unmarshal(b, e); err != nil {
		return nil, nil, err
	}
	payload, err := base64.StdEncoding.DecodeString(e.Payload)
	if err != nil {
		return nil, nil, err
	}
	return e, payload, nil
}

// readMeta reads metadata/root.json and metadata/targets.json of a policy commit.
func readMeta(v view, commit string) (*meta, error) {
	rb, ok := v.File(commit, "metadata/root.json")
	if !ok {
		return nil, fmt.Errorf("commit %s has no metadata/root.json", commit)
	}
	m := &meta{}
	env, payload, err := readEnvelope(rb)
	if err != nil {
		return nil, err
	}
	m.rootEnv = env
	if err := json.Unmarshal(payload, &m.root); err != nil {
		return nil, err
	}
	if tb, ok := v.File(commit, "metadata/targets.json"); ok {
		env, payload, err := readEnvelope(tb)
		if err != nil {
			return nil, err
		}
		m.targetsEnv = env
		if err := json.Unmarshal(payload, &m.targets); err != nil {
			return nil, err
		}
	}
	return m, nil
}

var knownKeys = []string{"R0", "R1", "T0", "P0", "U"}

// validSigners returns how many DISTINCT key ids of `trusted` have a valid
// signature on env (over the DSSE pre-authentication encoding).
func validSigners(env *rawEnvelope, trusted []string) int {
	payload, err := base64.StdEncoding.DecodeString(env.Payload)
	if err != nil {
		return 0
	}
	pae := []byte(fmt.Sprintf("DSSEv1 %d %s %d %s", len(env.PayloadType), env.PayloadType, len(payload), payload))
	ok := map[string]bool{}
	for _, s := range env.Signatures {
		in := false
		for _, t := range trusted {
			if t == s.KeyID {
				in = true
			}
		}
		if !in || ok[s.KeyID] {
			continue
		}
		var key *keys.Key
		for _, n := range knownKeys {
			if k := keys.Get(n); k.KeyID == s.KeyID {
				key = k
			}
		}
		if key == nil {
			continue
		}
		armored, err := base64.StdEncoding.DecodeString(s.Sig)
		if err != nil {
			continue
		}
		sig, err := sshsig.Unarmor(armored)
		if err != nil {
			continue
		}
		if sshsig.Verify(bytes.NewReader(pae), sig, key.Pub, sshsig.HashSHA512, "git") == nil {
			ok[s.KeyID] = true
		}
	}
	return len(ok)
}

// rejectCause is the oracle's statement of "full internal verification" of a
// policy state `next` published on top of `prev` (nil for the first policy):
// what LoadState's chain verification is documented to require. "" = accepted.
func rejectCause(prev, next *meta) string {
	rr, ok := next.root.Roles["root"]
	if !ok || rr.Threshold < 1 {
		return "root-role-missing"
	}
	if validSigners(next.rootEnv, rr.PrincipalIDs) < rr.Threshold {
		return "root-not-signed-by-own-root-keys"
	}
	if next.targetsEnv != nil {
		tr, ok := next.root.Roles["targets"]
		if !ok || tr.Threshold < 1 {
			return "rule-file-without-rule-file-keys"
		}
		if validSigners(next.targetsEnv, tr.PrincipalIDs) < tr.Threshold {
			return "rule-file-not-signed-by-rule-file-keys"
		}
	}
	if prev == nil {
		return ""
	}
	pr := prev.root.Roles["root"]
	if validSigners(next.rootEnv, pr.PrincipalIDs) < pr.Threshold {
		return "root-not-signed-by-previous-root"
	}
	if next.root.Version < prev.root.Version {
		return "root-version-rollback"
	}
	if prev.targetsEnv != nil {
		if next.targetsEnv == nil {
			return "rule-file-removed"
		}
		if next.targets.Version < prev.targets.Version {
			return "rule-file-version-rollback"
		}
	}
	return ""
}

// chainCause applies rejectCause hop by hop over all policy entries of the
// log. It returns the first cause and whether it is on the LAST hop.
func chainCause(v view, o obs) (cause string, lastHop bool, err error) {
	ents := o.entriesFor(policyRef)
	var prev *meta
	for i, e := range ents {
		m, err := readMeta(v, e.Target)
		if err != nil {
			return "", false, err
		}
		if c := rejectCause(prev, m); c != "" {
			return c, i == len(ents)-1, nil
		}
		prev = m
	}
	return "", false, nil
}
