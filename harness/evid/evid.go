// Package evid collects what one worker of a check covered and found. The
// driver (/verif/bin/check) merges the partial results of all shards, matches
// violations against known_findings.jsonl and writes /verif/evidence/<id>.json.
package evid

import (
	"encoding/json"
	"fmt"
	"os"
	"sort"
	"strconv"
	"strings"
	"sync"
	"time"
)

type Violation struct {
	// Signature identifies the failing call site / history shape (cause
	// observable in the execution), used for known-finding matching.
	Signature string `json:"signature"`
	What      string `json:"what"`
	// Replay is a self-contained description of the failing case that the
	// check can re-run with --replay.
	Replay any `json:"replay"`
}

type Partial struct {
	Property    string           `json:"property"`
	Shard       int              `json:"shard"`
	Shards      int              `json:"shards"`
	Counters    map[string]int64 `json:"counters"`
	Classes     []string         `json:"classes"`
	Samples     []any            `json:"samples"`
	Violations  []Violation      `json:"violations"`
	SigCounts   map[string]int64 `json:"sig_counts"`
	Exhaustive  bool             `json:"exhaustive"`
	Notes       []string         `json:"notes"`
	Bounds      map[string]any   `json:"bounds"`
	WallS       float64          `json:"wall_s"`
	Rule        string           `json:"rule"`
	Assumptions []string         `json:"assumptions"`
	InternalErr string           `json:"internal_error,omitempty"`
}

type Collector struct {
	mu       sync.Mutex
	p        Partial
	classes  map[string]bool
	start    time.Time
	maxViol  int
	maxSamp  int
	deadline time.Time
}

func Tier() string {
	if t := os.Getenv("VERIF_TIER"); t == "thorough" {
		return "thorough"
	}
	return "quick"
}

func Thorough() bool { return Tier() == "thorough" }

// Shard returns (i, n) from VERIF_SHARD="i/n" (default 0/1).
func Shard() (int, int) {
	s := os.Getenv("VERIF_SHARD")
	if s == "" {
		return 0, 1
	}
	parts := strings.Split(s, "/")
	if len(parts) != 2 {
		return 0, 1
	}
	i, _ := strconv.Atoi(parts[0])
	n, _ := strconv.Atoi(parts[1])
	if n < 1 {
		n = 1
	}
	return i, n
}

// Mine reports whether work item k belongs to this shard.
func Mine(k int) bool {
	i, n := Shard()
	return k%n == i
}

func New(property string) *Collector {
	i, n := Shard()
	c := &Collector{classes: map[string]bool{}, start: time.Now(), maxViol: 40, maxSamp: 12}
	c.p = Partial{Property: property, Shard: i, Shards: n, Counters: map[string]int64{}, SigCounts: map[string]int64{}, Exhaustive: true, Bounds: map[string]any{}}
	if d := os.Getenv("VERIF_DEADLINE_S"); d != "" {
		if s, err := strconv.Atoi(d); err == nil && s > 0 {
			c.deadline = c.start.Add(time.Duration(s) * time.Second)
		}
	}
	return c
}

// Expired reports whether the internal time cap was hit; the caller stops
// exploring, and the run is reported with exhaustive=false.
func (c *Collector) Expired() bool {
	if c.deadline.IsZero() {
		return false
	}
	if time.Now().After(c.deadline) {
		c.mu.Lock()
		if c.p.Exhaustive {
			c.p.Exhaustive = false
			c.p.Notes = append(c.p.Notes, "internal time cap hit; exploration stopped early")
		}
		c.mu.Unlock()
		return true
	}
	return false
}

func (c *Collector) Add(counter string, n int64) {
	c.mu.Lock()
	c.p.Counters[counter] += n
	c.mu.Unlock()
}

func (c *Collector) Inc(counter string) { c.Add(counter, 1) }

// Class records a distinct (input-class, outcome) pair.
func (c *Collector) Class(format string, a ...any) {
	k := fmt.Sprintf(format, a...)
	c.mu.Lock()
	c.classes[k] = true
	c.mu.Unlock()
}

func (c *Collector) Sample(s any) {
	c.mu.Lock()
	if len(c.p.Samples) < c.maxSamp {
		c.p.Samples = append(c.p.Samples, s)
	}
	c.mu.Unlock()
}

func (c *Collector) Note(format string, a ...any) {
	c.mu.Lock()
	c.p.Notes = append(c.p.Notes, fmt.Sprintf(format, a...))
	c.mu.Unlock()
}

// Rule states how cases are enumerated and what makes one distinct.
func (c *Collector) Rule(format string, a ...any) {
	c.mu.Lock()
	c.p.Rule = fmt.Sprintf(format, a...)
	c.mu.Unlock()
}

func (c *Collector) Assume(format string, a ...any) {
	c.mu.Lock()
	c.p.Assumptions = append(c.p.Assumptions, fmt.Sprintf(format, a...))
	c.mu.Unlock()
}

func (c *Collector) Bound(k string, v any) {
	c.mu.Lock()
	c.p.Bounds[k] = v
	c.mu.Unlock()
}

func (c *Collector) NotExhaustive(why string) {
	c.mu.Lock()
	c.p.Exhaustive = false
	c.p.Notes = append(c.p.Notes, why)
	c.mu.Unlock()
}

// Violation records a violation. Per signature the count is always kept and
// the shortest description seen so far is kept as the witness.
func (c *Collector) Violation(sig, what string, replay any) {
	c.mu.Lock()
	defer c.mu.Unlock()
	c.p.SigCounts[sig]++
	for i := range c.p.Violations {
		if c.p.Violations[i].Signature == sig {
			if len(what) < len(c.p.Violations[i].What) {
				c.p.Violations[i].What = what
				c.p.Violations[i].Replay = replay
			}
			return
		}
	}
	if len(c.p.Violations) < c.maxViol {
		c.p.Violations = append(c.p.Violations, Violation{Signature: sig, What: what, Replay: replay})
	}
}

func (c *Collector) NumViolations() int64 {
	c.mu.Lock()
	defer c.mu.Unlock()
	var n int64
	for _, v := range c.p.SigCounts {
		n += v
	}
	return n
}

func (c *Collector) Fail(err string) {
	c.mu.Lock()
	c.p.InternalErr = err
	c.mu.Unlock()
}

// Write stores the partial result where the driver expects it.
func (c *Collector) Write() error {
	c.mu.Lock()
	defer c.mu.Unlock()
	c.p.Classes = c.p.Classes[:0]
	for k := range c.classes {
		c.p.Classes = append(c.p.Classes, k)
	}
	sort.Strings(c.p.Classes)
	c.p.WallS = time.Since(c.start).Seconds()
	out := os.Getenv("VERIF_OUT")
	if out == "" {
		out = fmt.Sprintf("/var/tmp/verif-scratch/partial-%s-%d.json", c.p.Property, c.p.Shard)
		_ = os.MkdirAll("/var/tmp/verif-scratch", 0o755)
	}
	b, err := json.MarshalIndent(&c.p, "", " ")
	if err != nil {
		return err
	}
	return os.WriteFile(out, b, 0o644)
}

// ReplayFile returns the path given with VERIF_REPLAY (empty if none).
func ReplayFile() string { return os.Getenv("VERIF_REPLAY") }

// LoadReplay unmarshals the "replay" member of a replay file.
func LoadReplay(path string, into any) error {
	b, err := os.ReadFile(path)
	if err != nil {
		return err
	}
	var wrapper struct {
		Replay json.RawMessage `json:"replay"`
	}
	if err := json.Unmarshal(b, &wrapper); err != nil {
		return err
	}
	if len(wrapper.Replay) == 0 {
		return json.Unmarshal(b, into)
	}
	return json.Unmarshal(wrapper.Replay, into)
}
