// Package rec wraps a gitstore.Storer and records every call with its
// arguments and results. Two recordings of the same scenario, one over
// memstore and one over a real *gitinterface.Repository, must be identical
// call by call: that is the trace-conformance binding of lane M to real git.
package rec

import (
	"errors"
	"fmt"
	"sort"
	"strings"

	"github.com/gittuf/gittuf/pkg/githash"
	"github.com/gittuf/gittuf/pkg/gitstore"
)

type Recorder struct {
	Inner gitstore.Storer
	Log   []string
	// Shape is the sequence of method names with ok/err, for call-shape classes.
	Shape []string
	// Before, if set, is called at the start of every Storer method (a
	// scheduling / fault point for lanes that run on a real repository).
	Before func(method string, arg string)
	// Quiet disables the call log (for wrappers used only for their hook).
	Quiet bool
}

func (r *Recorder) before(method, arg string) {
	if r.Before != nil {
		r.Before(method, arg)
	}
}

var _ gitstore.Storer = (*Recorder)(nil)

func errClass(err error) string {
	switch {
	case err == nil:
		return "ok"
	case errors.Is(err, gitstore.ErrReferenceNotFound):
		return "err:ref-not-found"
	case errors.Is(err, gitstore.ErrDuplicateTreePath):
		return "err:dup-tree-path"
	default:
		return "err"
	}
}

func (r *Recorder) log(method string, err error, format string, a ...any) {
	if r.Quiet {
		return
	}
	r.Log = append(r.Log, fmt.Sprintf("%s %s => %s", method, fmt.Sprintf(format, a...), errClass(err)))
	r.Shape = append(r.Shape, method+":"+errClass(err))
}

func hs(h githash.Hash) string {
	if h == nil {
		return "nil"
	}
	return h.String()
}

func (r *Recorder) GetReference(refName string) (githash.Hash, error) {
	r.before("GetReference", refName)
	h, err := r.Inner.GetReference(refName)
	if err != nil {
		r.log("GetReference", err, "%s", refName)
	} else {
		r.log("GetReference", err, "%s -> %s", refName, hs(h))
	}
	return h, err
}

func (r *Recorder) SetReference(refName string, gitID githash.Hash) error {
	r.before("SetReference", refName)
	err := r.Inner.SetReference(refName, gitID)
	r.log("SetReference", err, "%s %s", refName, hs(gitID))
	return err
}

func (r *Recorder) DeleteReference(refName string) error {
	r.before("DeleteReference", refName)
	err := r.Inner.DeleteReference(refName)
	r.log("DeleteReference", err, "%s", refName)
	return err
}

func (r *Recorder) ReadBlob(blobID githash.Hash) ([]byte, error) {
	r.before("ReadBlob", "")
	b, err := r.Inner.ReadBlob(blobID)
	r.log("ReadBlob", err, "%s -> %q", hs(blobID), string(b))
	return b, err
}

func (r *Recorder) WriteBlob(contents []byte) (githash.Hash, error) {
	r.before("WriteBlob", "")
	h, err := r.Inner.WriteBlob(contents)
	r.log("WriteBlob", err, "%q -> %s", string(contents), hs(h))
	return h, err
}

func (r *Recorder) EmptyTree() (githash.Hash, error) {
	r.before("EmptyTree", "")
	h, err := r.Inner.EmptyTree()
	r.log("EmptyTree", err, "-> %s", hs(h))
	return h, err
}

func (r *Recorder) WriteTree(entries []gitstore.TreeEntry) (githash.Hash, error) {
	r.before("WriteTree", "")
	h, err := r.Inner.WriteTree(entries)
	parts := []string{}
	for _, e := range entries {
		parts = append(parts, fmt.Sprintf("%s:%s:%d", e.Path, hs(e.ID), e.Kind))
	}
	sort.Strings(parts)
	if err != nil {
		r.log("WriteTree", err, "%s", strings.Join(parts, ","))
	} else {
		r.log("WriteTree", err, "%s -> %s", strings.Join(parts, ","), hs(h))
	}
	return h, err
}

func (r *Recorder) GetAllFilesInTree(treeID githash.Hash) (map[string]githash.Hash, error) {
	r.before("GetAllFilesInTree", "")
	m, err := r.Inner.GetAllFilesInTree(treeID)
	parts := []string{}
	for p, id := range m {
		parts = append(parts, p+"="+hs(id))
	}
	sort.Strings(parts)
	r.log("GetAllFilesInTree", err, "%s -> %s", hs(treeID), strings.Join(parts, ","))
	return m, err
}

func (r *Recorder) GetEntriesInTree(treeID githash.Hash) ([]gitstore.TreeEntry, error) {
	r.before("GetEntriesInTree", "")
	es, err := r.Inner.GetEntriesInTree(treeID)
	parts := []string{}
	for _, e := range es {
		parts = append(parts, fmt.Sprintf("%s:%s:%d", e.Path, hs(e.ID), e.Kind))
	}
	r.log("GetEntriesInTree", err, "%s -> %s", hs(treeID), strings.Join(parts, ","))
	return es, err
}

func (r *Recorder) GetPathIDInTree(treeID githash.Hash, treePath string) (githash.Hash, error) {
	r.before("GetPathIDInTree", "")
	h, err := r.Inner.GetPathIDInTree(treeID, treePath)
	if err != nil {
		r.log("GetPathIDInTree", err, "%s %s", hs(treeID), treePath)
	} else {
		r.log("GetPathIDInTree", err, "%s %s -> %s", hs(treeID), treePath, hs(h))
	}
	return h, err
}

func (r *Recorder) GetCommitTreeID(commitID githash.Hash) (githash.Hash, error) {
	r.before("GetCommitTreeID", "")
	h, err := r.Inner.GetCommitTreeID(commitID)
	if err != nil {
		r.log("GetCommitTreeID", err, "%s", hs(commitID))
	} else {
		r.log("GetCommitTreeID", err, "%s -> %s", hs(commitID), hs(h))
	}
	return h, err
}

func (r *Recorder) GetCommitMessage(commitID githash.Hash) (string, error) {
	r.before("GetCommitMessage", "")
	m, err := r.Inner.GetCommitMessage(commitID)
	r.log("GetCommitMessage", err, "%s -> %q", hs(commitID), m)
	return m, err
}

func (r *Recorder) GetCommitParentIDs(commitID githash.Hash) ([]githash.Hash, error) {
	r.before("GetCommitParentIDs", "")
	ps, err := r.Inner.GetCommitParentIDs(commitID)
	parts := []string{}
	for _, p := range ps {
		parts = append(parts, hs(p))
	}
	r.log("GetCommitParentIDs", err, "%s -> %s", hs(commitID), strings.Join(parts, ","))
	return ps, err
}

func (r *Recorder) GetCommitsBetweenRange(commitNewID, commitOldID githash.Hash) ([]githash.Hash, error) {
	r.before("GetCommitsBetweenRange", "")
	cs, err := r.Inner.GetCommitsBetweenRange(commitNewID, commitOldID)
	parts := []string{}
	for _, p := range cs {
		parts = append(parts, hs(p))
	}
	r.log("GetCommitsBetweenRange", err, "%s %s -> %s", hs(commitNewID), hs(commitOldID), strings.Join(parts, ","))
	return cs, err
}

func (r *Recorder) GetFilePathsChangedByCommit(commitID githash.Hash) ([]string, error) {
	r.before("GetFilePathsChangedByCommit", "")
	ps, err := r.Inner.GetFilePathsChangedByCommit(commitID)
	r.log("GetFilePathsChangedByCommit", err, "%s -> %q", hs(commitID), ps)
	return ps, err
}

func (r *Recorder) KnowsCommit(commitID, ancestorID githash.Hash) (bool, error) {
	r.before("KnowsCommit", "")
	b, err := r.Inner.KnowsCommit(commitID, ancestorID)
	r.log("KnowsCommit", err, "%s %s -> %v", hs(commitID), hs(ancestorID), b)
	return b, err
}

func (r *Recorder) GetMergeTree(commitAID, commitBID githash.Hash) (githash.Hash, error) {
	r.before("GetMergeTree", "")
	h, err := r.Inner.GetMergeTree(commitAID, commitBID)
	if err != nil {
		r.log("GetMergeTree", err, "%s %s", hs(commitAID), hs(commitBID))
	} else {
		r.log("GetMergeTree", err, "%s %s -> %s", hs(commitAID), hs(commitBID), hs(h))
	}
	return h, err
}

func (r *Recorder) GetTagTarget(tagID githash.Hash) (githash.Hash, error) {
	r.before("GetTagTarget", "")
	h, err := r.Inner.GetTagTarget(tagID)
	if err != nil {
		r.log("GetTagTarget", err, "%s", hs(tagID))
	} else {
		r.log("GetTagTarget", err, "%s -> %s", hs(tagID), hs(h))
	}
	return h, err
}

func (r *Recorder) GetObjectSignature(objectID githash.Hash) ([]byte, []byte, error) {
	r.before("GetObjectSignature", "")
	p, s, err := r.Inner.GetObjectSignature(objectID)
	r.log("GetObjectSignature", err, "%s -> %q %q", hs(objectID), string(p), strings.TrimSpace(string(s)))
	return p, s, err
}

func (r *Recorder) Commit(treeID githash.Hash, targetRef, message string, sign bool) (githash.Hash, error) {
	r.before("Commit", targetRef)
	h, err := r.Inner.Commit(treeID, targetRef, message, sign)
	if err != nil {
		r.log("Commit", err, "%s %s %q %v", hs(treeID), targetRef, message, sign)
	} else {
		r.log("Commit", err, "%s %s %q %v -> %s", hs(treeID), targetRef, message, sign, hs(h))
	}
	return h, err
}

func (r *Recorder) CommitUsingSpecificKey(treeID githash.Hash, targetRef, message string, key []byte) (githash.Hash, error) {
	r.before("CommitUsingSpecificKey", targetRef)
	h, err := r.Inner.CommitUsingSpecificKey(treeID, targetRef, message, key)
	if err != nil {
		r.log("CommitUsingSpecificKey", err, "%s %s %q", hs(treeID), targetRef, message)
	} else {
		r.log("CommitUsingSpecificKey", err, "%s %s %q -> %s", hs(treeID), targetRef, message, hs(h))
	}
	return h, err
}

func (r *Recorder) ZeroHash() githash.Hash { return r.Inner.ZeroHash() }

func (r *Recorder) LookupConfig(key gitstore.ConfigKey) (string, bool, error) {
	v, ok, err := r.Inner.LookupConfig(key)
	// config lookups are environment, not behaviour: not part of the trace
	return v, ok, err
}

func (r *Recorder) ResetDueToError(cause error, refName string, commitID githash.Hash) error {
	r.before("ResetDueToError", "")
	err := r.Inner.ResetDueToError(cause, refName, commitID)
	r.log("ResetDueToError", nil, "%s %s", refName, hs(commitID))
	return err
}

// normalize sorts every maximal run of consecutive WriteBlob calls: gittuf
// writes the blobs of a policy state while ranging over a Go map, so their
// order is not a function of the input (and blob writes commute).
func normalize(a []string) []string {
	out := append([]string(nil), a...)
	i := 0
	for i < len(out) {
		if !strings.HasPrefix(out[i], "WriteBlob ") {
			i++
			continue
		}
		j := i
		for j < len(out) && strings.HasPrefix(out[j], "WriteBlob ") {
			j++
		}
		sort.Strings(out[i:j])
		i = j
	}
	return out
}

// Diff returns the first difference between two traces, or "".
func Diff(a, b []string) string {
	a, b = normalize(a), normalize(b)
	n := len(a)
	if len(b) < n {
		n = len(b)
	}
	for i := 0; i < n; i++ {
		if a[i] != b[i] {
			return fmt.Sprintf("call %d differs:\n  memstore: %s\n  git     : %s", i, a[i], b[i])
		}
	}
	if len(a) != len(b) {
		return fmt.Sprintf("trace lengths differ: memstore %d calls, git %d calls", len(a), len(b))
	}
	return ""
}
