// Package c15 checks property C15: "Reconcile and sync never drop, reorder,
// un-revoke or invent log entries".
//
// Engine: bounded-exhaustive enumeration of pairs (local-only suffix,
// remote-only suffix, local reference state, overwrite flag). Every pair is
// built on two real git repositories (a bare "remote" and a clone named
// "origin" in the clone's configuration) through gittuf's own recording API
// and then one call of ReconcileLocalRSLWithRemote or Sync is executed. The
// logs and references before and after are read with git plumbing
// (rev-list / cat-file / for-each-ref) and world.ParseText, never with
// pkg/rsl, and judged by the oracle below.
package c15

import (
	"bytes"
	"errors"
	"fmt"
	"io/fs"
	"os"
	"path/filepath"
	"reflect"
	"sort"
	"strconv"
	"strings"
	"testing"
	"time"
	"unsafe"

	"github.com/gittuf/gittuf/experimental/gittuf"
	"github.com/gittuf/gittuf/pkg/githash"
	"github.com/gittuf/gittuf/pkg/gitinterface"
	"github.com/gittuf/gittuf/pkg/rsl"
	"github.com/gittuf/gittuf/verif/evid"
	"github.com/gittuf/gittuf/verif/gitback"
	"github.com/gittuf/gittuf/verif/world"
)

const (
	refA        = "refs/heads/main"
	refB        = "refs/heads/feature"
	rslRef      = "refs/gittuf/reference-state-log"
	remoteName  = "origin"
	trackerRef  = "refs/remotes/origin/gittuf/reference-state-log"
	upstreamURL = "https://up/stream"
)

// ---------------------------------------------------------------------------
// alphabet
//
// An item is one log entry of a suffix:
//   rA | rB   reference entry for refA | refB at a new commit (child of the
//             side's previous commit for that reference)
//   pA        propagation entry for refA at a new commit
//   a+T | a-T annotation, skip true | false, naming T where T is
//             S   the first shared entry (reference entry refA -> a0)
//             j   the j-th entry of the same suffix (only non-annotations)
//             Sj  both

type pairSpec struct {
	Op        string            `json:"op"` // reconcile | sync
	Local     []string          `json:"local"`
	Remote    []string          `json:"remote"`
	States    map[string]string `json:"states,omitempty"` // ref -> equal|ahead|diverged|absent (default: as the local log records = behind)
	Overwrite bool              `json:"overwrite"`
}

func (p pairSpec) String() string {
	st := []string{}
	for _, r := range []string{refA, refB} {
		if s, ok := p.States[r]; ok {
			st = append(st, shortRef(r)+"="+s)
		}
	}
	return fmt.Sprintf("%s local=[%s] remote=[%s] states=[%s] overwrite=%v", p.Op, strings.Join(p.Local, ","), strings.Join(p.Remote, ","), strings.Join(st, ","), p.Overwrite)
}

func shortRef(r string) string {
	if r == refA {
		return "A"
	}
	return "B"
}

func gen(m int) [][]string {
	out := [][]string{}
	var rec func(cur []string)
	rec = func(cur []string) {
		out = append(out, append([]string{}, cur...))
		if len(cur) == m {
			return
		}
		opts := []string{"rA", "rB", "pA"}
		for _, sk := range []string{"+", "-"} {
			opts = append(opts, "a"+sk+"S")
			for j, it := range cur {
				if it[0] != 'a' {
					opts = append(opts, "a"+sk+strconv.Itoa(j), "a"+sk+"S"+strconv.Itoa(j))
				}
			}
		}
		for _, o := range opts {
			rec(append(append([]string(nil), cur...), o))
		}
	}
	rec(nil)
	return out
}

// namedRefs = references named by reference or propagation entries of a suffix.
func namedRefs(suffix []string) []string {
	seen := map[string]bool{}
	for _, it := range suffix {
		switch it {
		case "rA", "pA":
			seen[refA] = true
		case "rB":
			seen[refB] = true
		}
	}
	out := []string{}
	for _, r := range []string{refA, refB} {
		if seen[r] {
			out = append(out, r)
		}
	}
	return out
}

// shape is the coarse class of a suffix used for coverage classes.
func shape(suffix []string) string {
	if len(suffix) == 0 {
		return "empty"
	}
	f := map[string]bool{}
	for _, it := range suffix {
		switch it[0] {
		case 'r':
			f["ref"] = true
		case 'p':
			f["prop"] = true
		case 'a':
			t := it[2:]
			k := "ann" + it[1:2]
			switch {
			case t == "S":
				k += "shared"
			case strings.HasPrefix(t, "S"):
				k += "both"
			default:
				k += "own"
			}
			f[k] = true
		}
	}
	ks := []string{}
	for k := range f {
		ks = append(ks, k)
	}
	sort.Strings(ks)
	return strings.Join(ks, "+")
}

// enumerateQuick is the quick tier: a reduced alphabet chosen so that the
// whole space completes within the time cap on real repositories (process
// creation limits this sandbox to about one pair per second, whatever the
// number of workers). Items: rA, rB, pA, a+S, a+j (skip annotations only) in
// suffixes of length <= 2, plus the twelve length-3 suffixes in which ONE entry
// carries TWO annotations (skip / plain note in both orders): whether an entry
// counts as revoked must not depend on which of its annotations is met first.
func enumerateQuick() []pairSpec {
	base := [][]string{{}}
	firsts := []string{"rA", "rB", "pA", "a+S"}
	for _, f := range firsts {
		base = append(base, []string{f})
	}
	for _, f := range firsts {
		seconds := []string{"rA", "rB", "pA", "a+S"}
		if f[0] != 'a' {
			seconds = append(seconds, "a+0")
		}
		for _, g := range seconds {
			base = append(base, []string{f, g})
		}
	}
	double := [][]string{}
	for _, first := range []string{"rA", "rB", "pA"} {
		for _, s1 := range []string{"+", "-"} {
			for _, s2 := range []string{"+", "-"} {
				double = append(double, []string{first, "a" + s1 + "0", "a" + s2 + "0"})
			}
		}
	}
	all := append(append([][]string{}, base...), double...)
	specs := []pairSpec{}
	// reconcile: every local-only suffix x remote-only suffix in {[], rA, rB, a+S}
	for _, l := range all {
		for _, r := range [][]string{{}, {"rA"}, {"rB"}, {"a+S"}} {
			specs = append(specs, pairSpec{Op: "reconcile", Local: l, Remote: r})
		}
	}
	// sync push
	for _, l := range all {
		if len(l) > 0 {
			specs = append(specs, pairSpec{Op: "sync", Local: l, Remote: []string{}})
		}
	}
	// sync pull: every non-empty remote-only suffix x {as recorded; each named
	// reference ahead, diverged, diverged with overwrite}
	pull := func(l, r []string) {
		specs = append(specs, pairSpec{Op: "sync", Local: l, Remote: r, States: map[string]string{}})
		for _, x := range namedRefs(r) {
			specs = append(specs, pairSpec{Op: "sync", Local: l, Remote: r, States: map[string]string{x: "ahead"}})
			specs = append(specs, pairSpec{Op: "sync", Local: l, Remote: r, States: map[string]string{x: "diverged"}})
			specs = append(specs, pairSpec{Op: "sync", Local: l, Remote: r, States: map[string]string{x: "diverged"}, Overwrite: true})
		}
	}
	for _, r := range all {
		if len(r) > 0 {
			pull([]string{}, r)
		}
	}
	// sync with diverged logs
	for _, l := range [][]string{{"rA"}, {"a+S"}} {
		for _, r := range [][]string{{"rA"}, {"rB"}, {"pA"}, {"a+S"}} {
			pull(l, r)
		}
	}
	return interleave(specs)
}

func enumerate(thorough bool) []pairSpec {
	if !thorough {
		return enumerateQuick()
	}
	m := 2
	if thorough {
		m = 3
	}
	full := gen(m)
	specs := []pairSpec{}
	// reconcile: quick = local-only suffix <= 2 x remote-only suffix <= 1;
	// thorough = (local <= 3 x remote <= 1) and (local <= 2 x remote <= 2)
	for _, l := range full {
		for _, r := range gen(2) {
			if len(r) > 1 && (!thorough || len(l) > 2) {
				continue
			}
			specs = append(specs, pairSpec{Op: "reconcile", Local: l, Remote: r})
		}
	}
	// sync, push side: local-only suffix up to m, remote has nothing new
	for _, l := range full {
		for _, ow := range []bool{false, true} {
			specs = append(specs, pairSpec{Op: "sync", Local: l, Remote: []string{}, Overwrite: ow})
		}
	}
	// sync, pull side: remote-only suffix up to m, local log has nothing new,
	// local reference states for the references the remote suffix names
	states := []string{"equal", "ahead", "diverged", "absent"}
	addStates := func(l, r []string, product bool) {
		named := namedRefs(r)
		combos := []map[string]string{{}}
		if product && len(named) == 2 {
			all := append([]string{""}, states...)
			combos = combos[:0]
			for _, sa := range all {
				for _, sb := range all {
					c := map[string]string{}
					if sa != "" {
						c[refA] = sa
					}
					if sb != "" {
						c[refB] = sb
					}
					combos = append(combos, c)
				}
			}
		} else {
			for _, x := range named {
				for _, s := range states {
					combos = append(combos, map[string]string{x: s})
				}
			}
		}
		for _, c := range combos {
			for _, ow := range []bool{false, true} {
				specs = append(specs, pairSpec{Op: "sync", Local: l, Remote: r, States: c, Overwrite: ow})
			}
		}
	}
	for _, r := range full {
		if len(r) == 0 {
			continue
		}
		// one reference varied at a time; thorough: all combinations for suffixes <= 2
		addStates([]string{}, r, thorough && len(r) <= 2)
	}
	// sync, diverged logs: a one-entry local-only suffix against remote suffixes up to m-1
	for _, l := range [][]string{{"rA"}, {"rB"}, {"pA"}, {"a+S"}} {
		for _, r := range gen(m - 1) {
			if len(r) == 0 {
				continue
			}
			addStates(l, r, false)
		}
	}
	return interleave(specs)
}

// interleave orders the specs so that a run stopped by its time cap has
// covered all four families (reconcile, sync push, sync pull, sync with
// diverged logs) proportionally instead of only the first ones.
func interleave(specs []pairSpec) []pairSpec {
	fam := func(sp pairSpec) int {
		switch {
		case sp.Op == "reconcile":
			return 0
		case len(sp.Remote) == 0:
			return 1
		case len(sp.Local) == 0:
			return 2
		}
		return 3
	}
	groups := [4][]pairSpec{}
	for _, sp := range specs {
		groups[fam(sp)] = append(groups[fam(sp)], sp)
	}
	mixed := make([]pairSpec, 0, len(specs))
	pos := [4]int{}
	total := len(specs)
	for k := 0; k < total; k++ {
		// pick the family that is furthest behind its proportional share
		best, bestLag := -1, -1.0
		for g := range groups {
			if pos[g] >= len(groups[g]) {
				continue
			}
			lag := float64(k+1)*float64(len(groups[g]))/float64(total) - float64(pos[g])
			if lag > bestLag {
				best, bestLag = g, lag
			}
		}
		mixed = append(mixed, groups[best][pos[best]])
		pos[best]++
	}
	return mixed
}

// ---------------------------------------------------------------------------
// ground truth: raw reading of logs and references

type entry struct {
	ID     string
	Parent string
	world.ParsedText
}

func refsOf(r *gitback.Repo) (map[string]string, error) {
	out, err := r.Git(nil, "for-each-ref", "--format=%(refname)%00%(objectname)%00")
	if err != nil {
		return nil, err
	}
	m := map[string]string{}
	f := strings.Split(string(out), "\x00")
	for i := 0; i+1 < len(f); i += 2 {
		name := strings.TrimLeft(f[i], "\n")
		if name == "" {
			continue
		}
		m[name] = f[i+1]
	}
	return m, nil
}

// readLog returns the chain under tip oldest first. It fails if the history
// is not a single-parent chain or an entry text is not well formed.
func readLog(r *gitback.Repo, tip string) ([]entry, error) {
	if tip == "" {
		return nil, nil
	}
	out, err := r.Git(nil, "rev-list", "--parents", tip)
	if err != nil {
		return nil, err
	}
	parents := map[string][]string{}
	ids := []string{}
	for _, line := range strings.Split(strings.TrimSpace(string(out)), "\n") {
		f := strings.Fields(line)
		if len(f) == 0 {
			continue
		}
		parents[f[0]] = f[1:]
		ids = append(ids, f[0])
	}
	batch, err := r.Git([]byte(strings.Join(ids, "\n")+"\n"), "cat-file", "--batch")
	if err != nil {
		return nil, err
	}
	texts := map[string]string{}
	for len(batch) > 0 {
		nl := bytes.IndexByte(batch, '\n')
		if nl < 0 {
			return nil, fmt.Errorf("cat-file --batch: truncated header")
		}
		h := strings.Fields(string(batch[:nl]))
		if len(h) != 3 || h[1] != "commit" {
			return nil, fmt.Errorf("cat-file --batch: unexpected header %q", string(batch[:nl]))
		}
		n, err := strconv.Atoi(h[2])
		if err != nil || nl+1+n+1 > len(batch) {
			return nil, fmt.Errorf("cat-file --batch: bad size in %q", string(batch[:nl]))
		}
		body := string(batch[nl+1 : nl+1+n])
		batch = batch[nl+1+n+1:]
		i := strings.Index(body, "\n\n")
		if i < 0 {
			return nil, fmt.Errorf("commit %s has no message", h[0])
		}
		texts[h[0]] = strings.TrimSpace(body[i+2:])
	}
	rev := []entry{}
	cur := tip
	for cur != "" {
		ps, ok := parents[cur]
		if !ok {
			return nil, fmt.Errorf("log walk left the rev-list at %s", cur)
		}
		if len(ps) > 1 {
			return nil, fmt.Errorf("log entry %s has %d parents", cur, len(ps))
		}
		p := world.ParseText(texts[cur])
		if !p.WellForm {
			return nil, fmt.Errorf("log entry %s is not a well-formed entry: %q", cur, texts[cur])
		}
		e := entry{ID: cur, ParsedText: p}
		if len(ps) == 1 {
			e.Parent = ps[0]
		}
		rev = append(rev, e)
		cur = e.Parent
	}
	if len(rev) != len(ids) {
		return nil, fmt.Errorf("log under %s is not a single chain (%d reachable, %d on the first-parent walk)", tip, len(ids), len(rev))
	}
	for i, j := 0, len(rev)-1; i < j; i, j = i+1, j-1 {
		rev[i], rev[j] = rev[j], rev[i]
	}
	return rev, nil
}

func idsOf(log []entry) []string {
	out := make([]string, len(log))
	for i, e := range log {
		out[i] = e.ID
	}
	return out
}

func sameIDs(a, b []entry) bool {
	if len(a) != len(b) {
		return false
	}
	for i := range a {
		if a[i].ID != b[i].ID {
			return false
		}
	}
	return true
}

func hasPrefix(log, prefix []entry) bool {
	return len(log) >= len(prefix) && sameIDs(log[:len(prefix)], prefix)
}

func commonPrefix(a, b []entry) int {
	n := 0
	for n < len(a) && n < len(b) && a[n].ID == b[n].ID {
		n++
	}
	return n
}

func isUpdater(e entry) bool { return e.Kind == "reference" || e.Kind == "propagation" }

// skippedIn: some annotation of log with skip true names id.
func skippedIn(log []entry, id string) bool {
	for _, e := range log {
		if e.Kind == "annotation" && e.Skip == "true" {
			for _, x := range e.EntryIDs {
				if x == id {
					return true
				}
			}
		}
	}
	return false
}

// latestUnskipped returns the newest reference or propagation entry of part
// for ref that no annotation of whole skips.
func latestUnskipped(part, whole []entry, ref string) (entry, bool) {
	for i := len(part) - 1; i >= 0; i-- {
		e := part[i]
		if isUpdater(e) && e.Ref == ref && !skippedIn(whole, e.ID) {
			return e, true
		}
	}
	return entry{}, false
}

func updatedRefs(part, whole []entry, onlyReference, onlyUnskipped bool) map[string]bool {
	m := map[string]bool{}
	for _, e := range part {
		if !isUpdater(e) || (onlyReference && e.Kind != "reference") {
			continue
		}
		if onlyUnskipped && skippedIn(whole, e.ID) {
			continue
		}
		m[e.Ref] = true
	}
	return m
}

func intersects(a, b map[string]bool) bool {
	for k := range a {
		if b[k] {
			return true
		}
	}
	return false
}

func semKey(e entry) string {
	switch e.Kind {
	case "reference":
		return "reference|" + e.Ref + "|" + e.Target
	case "propagation":
		return "propagation|" + e.Ref + "|" + e.Target + "|" + e.Upstream + "|" + e.UpEntry
	case "annotation":
		return fmt.Sprintf("annotation|skip=%s|n=%d", e.Skip, len(e.EntryIDs))
	}
	return "?"
}

func describe(log []entry) string {
	s := []string{}
	for _, e := range log {
		switch e.Kind {
		case "annotation":
			t := []string{}
			for _, id := range e.EntryIDs {
				t = append(t, id[:7])
			}
			s = append(s, fmt.Sprintf("%s:annotation(skip=%s of %s)", e.ID[:7], e.Skip, strings.Join(t, "+")))
		default:
			s = append(s, fmt.Sprintf("%s:%s(%s->%s)", e.ID[:7], e.Kind, shortName(e.Ref), e.Target[:7]))
		}
	}
	return "[" + strings.Join(s, " ") + "]"
}

func shortName(ref string) string { return strings.TrimPrefix(ref, "refs/heads/") }

// ---------------------------------------------------------------------------
// building one pair on real repositories

type pair struct {
	spec      pairSpec
	dir       string
	remote    *gitback.Repo
	local     *gitback.Repo
	gl        *gittuf.Repository
	tree      githash.Hash
	parentOf  map[string]string // commit DAG built by the harness
	base      map[string]githash.Hash
	prefixIDs []string
	ops       int // recording operations executed during the build
	localLog  []entry
	remoteLog []entry
}

func wrap(r *gitinterface.Repository) (*gittuf.Repository, error) {
	gr := new(gittuf.Repository)
	if unsafe.Sizeof(*gr) != unsafe.Sizeof(uintptr(0)) {
		return nil, errors.New("gittuf.Repository is no longer a single pointer; update c15.wrap")
	}
	*(**gitinterface.Repository)(unsafe.Pointer(gr)) = r
	if gr.GetGitRepository() != r {
		return nil, errors.New("could not wrap the test repository in a gittuf.Repository")
	}
	return gr, nil
}

// rebind returns a copy of the test repository handle tmpl (fixed clock,
// object format) that operates on the git directory gitDir. It saves the
// `git init` + 4 x `git config` that CreateTestGitRepository would spend on
// a directory that is already a copy of such a repository.
func rebind(tmpl *gitinterface.Repository, gitDir string) (*gitinterface.Repository, error) {
	cp := *tmpl
	f := reflect.ValueOf(&cp).Elem().FieldByName("gitDirPath")
	if !f.IsValid() || f.Kind() != reflect.String {
		return nil, errors.New("gitinterface.Repository has no string field gitDirPath; update c15.rebind")
	}
	reflect.NewAt(f.Type(), unsafe.Pointer(f.UnsafeAddr())).Elem().SetString(gitDir)
	if cp.GetGitDir() != gitDir {
		return nil, errors.New("could not rebind the test repository handle")
	}
	return &cp, nil
}

// template is the part every pair shares: a bare remote holding the two base
// commits and the 2-entry prefix, and a bare clone (remote "origin") holding
// the same. It is built once per worker with gitback.New (fixed clock and
// identity) and copied file by file for every pair.
type template struct {
	remote, local *gitback.Repo
	tree          githash.Hash
	base          map[string]githash.Hash
	parentOf      map[string]string
	prefixIDs     []string
	ops           int
}

func buildTemplate(t *testing.T) (*template, error) {
	rsl.ResetCacheForVerif()
	tp := &template{base: map[string]githash.Hash{}, parentOf: map[string]string{}}
	tp.remote = gitback.New(t, true)
	tree, err := tp.remote.EmptyTree()
	if err != nil {
		return nil, err
	}
	tp.tree = tree
	for _, ref := range []string{refA, refB} {
		c, err := tp.remote.PutCommit(tree, nil, "base "+shortName(ref)+"\n", nil)
		if err != nil {
			return nil, err
		}
		tp.parentOf[c.String()] = ""
		tp.base[ref] = c
		if err := tp.remote.SetReference(ref, c); err != nil {
			return nil, err
		}
		if err := rsl.NewReferenceEntry(ref, c).Commit(tp.remote, false); err != nil {
			return nil, err
		}
		tp.ops++
		tip, err := revParse(tp.remote, rslRef)
		if err != nil {
			return nil, err
		}
		tp.prefixIDs = append(tp.prefixIDs, tip)
	}
	tp.local = gitback.New(t, true)
	if err := tp.local.AddRemote(remoteName, tp.remote.Dir); err != nil {
		return nil, err
	}
	// Both repositories run on the same fixed clock; a different committer
	// keeps an entry recorded on both sides from being the very same object
	// (as in gittuf's own reconcile/sync tests).
	if err := tp.local.SetGitConfig("user.name", "Local Clone"); err != nil {
		return nil, err
	}
	if err := tp.local.SetGitConfig("user.email", "local.clone@example.com"); err != nil {
		return nil, err
	}
	if _, err := tp.local.Git(nil, "fetch", "-q", remoteName, "refs/heads/*:refs/heads/*", rslRef+":"+rslRef); err != nil {
		return nil, err
	}
	for _, r := range []*gitback.Repo{tp.remote, tp.local} {
		os.RemoveAll(filepath.Join(r.Dir, "hooks"))
	}
	return tp, nil
}

func copyTree(src, dst string) error {
	return filepath.WalkDir(src, func(path string, d fs.DirEntry, err error) error {
		if err != nil {
			return err
		}
		rel, err := filepath.Rel(src, path)
		if err != nil {
			return err
		}
		target := filepath.Join(dst, rel)
		if d.IsDir() {
			return os.MkdirAll(target, 0o755)
		}
		b, err := os.ReadFile(path)
		if err != nil {
			return err
		}
		return os.WriteFile(target, b, 0o644)
	})
}

// instantiate copies the template into a fresh directory under VERIF_SCRATCH.
func (tp *template) instantiate(sp pairSpec) (*pair, error) {
	dir, err := os.MkdirTemp(os.Getenv("VERIF_SCRATCH"), "pair-")
	if err != nil {
		return nil, err
	}
	p := &pair{spec: sp, dir: dir, tree: tp.tree, base: tp.base, prefixIDs: tp.prefixIDs, ops: tp.ops, parentOf: map[string]string{}}
	for k, v := range tp.parentOf {
		p.parentOf[k] = v
	}
	rdir, ldir := filepath.Join(dir, "remote.git"), filepath.Join(dir, "local.git")
	if err := copyTree(tp.remote.Dir, rdir); err != nil {
		return p, err
	}
	if err := copyTree(tp.local.Dir, ldir); err != nil {
		return p, err
	}
	cfg, err := os.ReadFile(filepath.Join(ldir, "config"))
	if err != nil {
		return p, err
	}
	if !bytes.Contains(cfg, []byte(tp.remote.Dir)) {
		return p, errors.New("clone configuration does not mention the template remote")
	}
	if err := os.WriteFile(filepath.Join(ldir, "config"), bytes.ReplaceAll(cfg, []byte(tp.remote.Dir), []byte(rdir)), 0o644); err != nil {
		return p, err
	}
	rr, err := rebind(tp.remote.Repository, rdir)
	if err != nil {
		return p, err
	}
	lr, err := rebind(tp.local.Repository, ldir)
	if err != nil {
		return p, err
	}
	p.remote = &gitback.Repo{Repository: rr, Dir: rdir}
	p.local = &gitback.Repo{Repository: lr, Dir: ldir}
	if p.gl, err = wrap(lr); err != nil {
		return p, err
	}
	return p, nil
}

func (p *pair) cleanup() {
	if p != nil && p.dir != "" {
		os.RemoveAll(p.dir)
	}
}

func (p *pair) commit(repo *gitback.Repo, parent githash.Hash, msg string) (githash.Hash, error) {
	ps := []githash.Hash{}
	if parent != nil {
		ps = append(ps, parent)
	}
	id, err := repo.PutCommit(p.tree, ps, msg+"\n", nil)
	if err != nil {
		return nil, err
	}
	if parent != nil {
		p.parentOf[id.String()] = parent.String()
	} else {
		p.parentOf[id.String()] = ""
	}
	return id, nil
}

func (p *pair) isAncestor(anc, desc string) bool {
	for cur := desc; cur != ""; cur = p.parentOf[cur] {
		if cur == anc {
			return true
		}
	}
	return false
}

func revParse(repo *gitback.Repo, ref string) (string, error) {
	out, err := repo.Git(nil, "rev-parse", "--verify", "-q", ref)
	if err != nil {
		return "", err
	}
	return strings.TrimSpace(string(out)), nil
}

// applySuffix records the items on repo, returns the resulting log and leaves
// the branch references in the state that log records (latest unskipped entry
// per reference).
func (p *pair) applySuffix(repo *gitback.Repo, side string, suffix []string) ([]entry, error) {
	tips := map[string]githash.Hash{refA: p.base[refA], refB: p.base[refB]}
	count := map[string]int{}
	own := map[int]githash.Hash{}
	shared, err := githash.NewHash(p.prefixIDs[0])
	if err != nil {
		return nil, err
	}
	needed := map[int]bool{} // own entries that a later annotation names
	for _, it := range suffix {
		if it[0] == 'a' {
			if t := strings.TrimPrefix(it[2:], "S"); t != "" {
				j, err := strconv.Atoi(t)
				if err != nil {
					return nil, fmt.Errorf("bad item %q", it)
				}
				needed[j] = true
			}
		}
	}
	for i, it := range suffix {
		switch it[0] {
		case 'r', 'p':
			ref := refA
			if it[1] == 'B' {
				ref = refB
			}
			count[ref]++
			c, err := p.commit(repo, tips[ref], fmt.Sprintf("%s %s %d", side, shortName(ref), count[ref]))
			if err != nil {
				return nil, err
			}
			if it[0] == 'r' {
				err = rsl.NewReferenceEntry(ref, c).Commit(repo, false)
			} else {
				err = rsl.NewPropagationEntry(ref, c, upstreamURL, tips[ref]).Commit(repo, false)
			}
			if err != nil {
				return nil, fmt.Errorf("%s item %d (%s): %w", side, i, it, err)
			}
			tips[ref] = c
		case 'a':
			ids := []githash.Hash{}
			t := it[2:]
			if strings.HasPrefix(t, "S") {
				ids = append(ids, shared)
				t = t[1:]
			}
			if t != "" {
				j, _ := strconv.Atoi(t)
				h, ok := own[j]
				if !ok {
					return nil, fmt.Errorf("bad item %q at %d", it, i)
				}
				ids = append(ids, h)
			}
			if err := rsl.NewAnnotationEntry(ids, it[1] == '+', "").Commit(repo, false); err != nil {
				return nil, fmt.Errorf("%s item %d (%s): %w", side, i, it, err)
			}
		default:
			return nil, fmt.Errorf("bad item %q", it)
		}
		p.ops++
		if needed[i] {
			if it[0] == 'a' {
				return nil, fmt.Errorf("item %d is an annotation but is named by a later annotation", i)
			}
			tip, err := revParse(repo, rslRef)
			if err != nil {
				return nil, err
			}
			h, err := githash.NewHash(tip)
			if err != nil {
				return nil, err
			}
			own[i] = h
		}
	}
	tip, err := revParse(repo, rslRef)
	if err != nil {
		return nil, err
	}
	log, err := readLog(repo, tip)
	if err != nil {
		return nil, err
	}
	for _, ref := range []string{refA, refB} {
		want := p.base[ref].String()
		if e, ok := latestUnskipped(log, log, ref); ok {
			want = e.Target
		}
		if want == p.base[ref].String() {
			continue // the template already has it there
		}
		if _, err := repo.Git(nil, "update-ref", ref, want); err != nil {
			return nil, err
		}
	}
	return log, nil
}

func buildPair(tp *template, sp pairSpec) (*pair, error) {
	rsl.ResetCacheForVerif()
	p, err := tp.instantiate(sp)
	if err != nil {
		return p, err
	}
	if p.remoteLog, err = p.applySuffix(p.remote, "remote", sp.Remote); err != nil {
		return p, err
	}
	if p.localLog, err = p.applySuffix(p.local, "local", sp.Local); err != nil {
		return p, err
	}
	return p, nil
}

var errNotConstructible = errors.New("local reference state not constructible")

// applyStates puts the named local references into the requested state
// relative to the target of the latest unskipped remote entry.
func (p *pair) applyStates() error {
	remoteLog := p.remoteLog
	for _, ref := range []string{refA, refB} {
		st, ok := p.spec.States[ref]
		if !ok {
			continue
		}
		e, has := latestUnskipped(remoteLog, remoteLog, ref)
		switch st {
		case "absent":
			if _, err := p.local.Git(nil, "update-ref", "-d", ref); err != nil {
				return err
			}
		case "diverged":
			c, err := p.commit(p.local, p.base[ref], "local diverged "+shortName(ref))
			if err != nil {
				return err
			}
			if _, err := p.local.Git(nil, "update-ref", ref, c.String()); err != nil {
				return err
			}
		case "equal", "ahead":
			if !has {
				return errNotConstructible
			}
			// the user fetched the branch (but not the log) earlier
			if e.Target != p.base[ref].String() {
				if _, err := p.local.Git(nil, "fetch", "-q", remoteName, ref); err != nil {
					return err
				}
				if _, err := p.local.Git(nil, "cat-file", "-e", e.Target); err != nil {
					return errNotConstructible
				}
			}
			target := e.Target
			if st == "ahead" {
				h, err := githash.NewHash(e.Target)
				if err != nil {
					return err
				}
				c, err := p.commit(p.local, h, "local ahead "+shortName(ref))
				if err != nil {
					return err
				}
				target = c.String()
			}
			if _, err := p.local.Git(nil, "update-ref", ref, target); err != nil {
				return err
			}
		default:
			return fmt.Errorf("unknown state %q", st)
		}
	}
	return nil
}

// snapshot of both repositories
type snap struct {
	localLog, remoteLog   []entry
	localRefs, remoteRefs map[string]string
}

// snapshot reads references and logs of both repositories. When logs is false
// the logs read right after the build are reused (nothing has touched them).
func (p *pair) snapshot(logs bool) (*snap, error) {
	s := &snap{}
	var err error
	if s.localRefs, err = refsOf(p.local); err != nil {
		return nil, err
	}
	if s.remoteRefs, err = refsOf(p.remote); err != nil {
		return nil, err
	}
	if !logs {
		s.localLog, s.remoteLog = p.localLog, p.remoteLog
		if len(s.localLog) == 0 || len(s.remoteLog) == 0 || s.localRefs[rslRef] != s.localLog[len(s.localLog)-1].ID || s.remoteRefs[rslRef] != s.remoteLog[len(s.remoteLog)-1].ID {
			return nil, errors.New("log tips moved between build and snapshot")
		}
		return s, nil
	}
	if s.localLog, err = readLog(p.local, s.localRefs[rslRef]); err != nil {
		return nil, fmt.Errorf("local log: %w", err)
	}
	if s.remoteLog, err = readLog(p.remote, s.remoteRefs[rslRef]); err != nil {
		return nil, fmt.Errorf("remote log: %w", err)
	}
	return s, nil
}

func branches(refs map[string]string) map[string]string {
	m := map[string]string{}
	for k, v := range refs {
		if strings.HasPrefix(k, "refs/heads/") {
			m[k] = v
		}
	}
	return m
}

func sameMap(a, b map[string]string) bool {
	if len(a) != len(b) {
		return false
	}
	for k, v := range a {
		if b[k] != v {
			return false
		}
	}
	return true
}

// ---------------------------------------------------------------------------
// oracle

type viol struct{ sig, what string }

// judgeReconcile returns the outcome label and the violations of one
// ReconcileLocalRSLWithRemote call.
func judgeReconcile(before, after *snap, callErr error) (string, []viol) {
	vs := []viol{}
	add := func(sig, format string, a ...any) { vs = append(vs, viol{sig, fmt.Sprintf(format, a...)}) }
	Lb, Rb, La := before.localLog, before.remoteLog, after.localLog
	n := commonPrefix(Lb, Rb)
	shared, lo, ro := Lb[:n], Lb[n:], Rb[n:]

	if !sameIDs(after.remoteLog, Rb) || !sameMap(branches(after.remoteRefs), branches(before.remoteRefs)) {
		add("C15:reconcile:remote-repository-changed", "reconcile changed the remote repository")
	}

	diverged := len(lo) > 0 && len(ro) > 0
	// certain conflict: both sides have an unskipped reference or propagation
	// entry for the same reference
	mustRefuse := diverged && intersects(updatedRefs(lo, Lb, false, true), updatedRefs(ro, Rb, false, true))
	outcome := ""
	changed := !sameIDs(La, Lb)
	refsChanged := !sameMap(branches(after.localRefs), branches(before.localRefs))

	if callErr != nil {
		outcome = "refused"
		if !mustRefuse {
			outcome = "failed-without-conflict"
			if diverged && intersects(updatedRefs(lo, Lb, false, false), updatedRefs(ro, Rb, false, false)) {
				outcome = "refused-conflict-with-skipped-entry"
			}
		}
		// refusal or failure: nothing may have changed
		if changed {
			add("C15:reconcile:failed-but-log-changed", "reconcile returned %q but the local log changed from %s to %s", callErr, describe(Lb), describe(La))
		}
		if refsChanged {
			add("C15:reconcile:failed-but-refs-changed", "reconcile returned %q but local branch references changed from %v to %v", callErr, branches(before.localRefs), branches(after.localRefs))
		}
		if tr := after.localRefs[trackerRef]; tr != before.localRefs[trackerRef] && tr != before.remoteRefs[rslRef] {
			add("C15:reconcile:tracker-not-remote-tip", "after a refused reconcile the tracker is %s, neither its earlier value nor the remote tip %s", tr, before.remoteRefs[rslRef])
		}
		return outcome, vs
	}

	switch {
	case !diverged && len(ro) == 0:
		outcome = "local-ahead-or-equal"
	case !diverged:
		outcome = "fast-forwarded"
	default:
		outcome = "reconciled"
	}
	if mustRefuse {
		outcome = "conflict-accepted"
		if !intersects(updatedRefs(lo, Lb, true, true), updatedRefs(ro, Rb, true, true)) {
			add("C15:reconcile:conflict-via-propagation-entry-not-refused", "both sides changed the same reference (one of them through a propagation entry) but reconcile succeeded: local-only %s remote-only %s result %s", describe(lo), describe(ro), describe(La))
		} else {
			add("C15:reconcile:conflict-not-refused", "both sides changed the same reference but reconcile succeeded: local-only %s remote-only %s result %s", describe(lo), describe(ro), describe(La))
		}
	}
	if refsChanged {
		add("C15:reconcile:branch-reference-moved", "reconcile moved local branch references from %v to %v", branches(before.localRefs), branches(after.localRefs))
	}

	// the result must be: remote log ++ counterparts of the local-only entries
	if !hasPrefix(La, Rb) {
		add("C15:reconcile:result-does-not-extend-remote-log", "local log after reconcile %s does not start with the remote log %s", describe(La), describe(Rb))
		return outcome, vs
	}
	C := La[len(Rb):]
	// align local-only entries with the re-recorded ones (longest common
	// subsequence on kind/ref/target/upstream/skip/arity)
	match := lcs(lo, C)
	cp := map[string]string{} // old id -> counterpart id
	for _, e := range shared {
		cp[e.ID] = e.ID
	}
	matchedC := map[int]bool{}
	for i, j := range match {
		if j >= 0 {
			cp[lo[i].ID] = C[j].ID
			matchedC[j] = true
		}
	}
	droppedKinds := map[string][]string{}
	for i, j := range match {
		if j < 0 {
			droppedKinds[lo[i].Kind] = append(droppedKinds[lo[i].Kind], lo[i].ID[:7])
		}
	}
	invented := []string{}
	for j := range C {
		if !matchedC[j] {
			invented = append(invented, C[j].ID[:7])
		}
	}
	if len(droppedKinds) > 0 && len(invented) > 0 && sameMultiset(lo, C) {
		add("C15:reconcile:local-entries-reordered", "local-only entries %s were re-recorded in a different order: %s", describe(lo), describe(C))
	} else {
		for _, k := range []string{"reference", "annotation", "propagation"} {
			if ids := droppedKinds[k]; len(ids) > 0 {
				add("C15:reconcile:local-"+k+"-entry-dropped", "local-only %s entr(ies) %v have no counterpart after reconcile: local-only %s, re-recorded %s", k, ids, describe(lo), describe(C))
			}
		}
		if len(invented) > 0 {
			add("C15:reconcile:entry-invented-or-altered", "entries %v after reconcile correspond to no local-only entry: local-only %s, re-recorded %s", invented, describe(lo), describe(C))
		}
	}
	// annotations must name the counterparts of what they named
	stale := map[string]bool{} // old ids of entries that a stale annotation was meant to name
	for i, j := range match {
		if j < 0 || lo[i].Kind != "annotation" {
			continue
		}
		for k, old := range lo[i].EntryIDs {
			want, ok := cp[old]
			if !ok {
				continue // the named entry itself was dropped (reported above)
			}
			got := C[j].EntryIDs[k]
			if got == want {
				continue
			}
			if got == old {
				stale[old] = true
				if lo[i].Skip == "true" {
					add("C15:reconcile:annotation-targets-stale-id:local-only-entry-unrevoked", "skip annotation %s named local-only entry %s; its re-recorded form %s still names the abandoned %s instead of the counterpart %s, so the counterpart is no longer skipped", lo[i].ID[:7], old[:7], C[j].ID[:7], old[:7], want[:7])
				} else {
					add("C15:reconcile:annotation-targets-stale-id:annotation-detached", "annotation %s named local-only entry %s; its re-recorded form %s still names the abandoned %s instead of the counterpart %s", lo[i].ID[:7], old[:7], C[j].ID[:7], old[:7], want[:7])
				}
			} else {
				add("C15:reconcile:annotation-retargeted-wrongly", "annotation %s named %s; its re-recorded form %s names %s, expected %s", lo[i].ID[:7], old[:7], C[j].ID[:7], got[:7], want[:7])
			}
		}
	}
	// skipped-before(e) <=> skipped-after(counterpart(e))
	for i, j := range match {
		if j < 0 {
			continue
		}
		b, a := skippedIn(Lb, lo[i].ID), skippedIn(La, C[j].ID)
		if b != a && !stale[lo[i].ID] {
			add("C15:reconcile:skip-status-changed", "local-only entry %s skipped=%v but its counterpart %s skipped=%v", lo[i].ID[:7], b, C[j].ID[:7], a)
		}
	}
	for _, e := range shared {
		if want, got := skippedIn(Lb, e.ID) || skippedIn(Rb, e.ID), skippedIn(La, e.ID); want != got {
			// a dropped or stale annotation explains a lost skip; report only unexplained ones
			if len(droppedKinds["annotation"]) == 0 {
				add("C15:reconcile:skip-status-changed", "shared entry %s: skipped by local or remote annotations=%v, after reconcile=%v", e.ID[:7], want, got)
			}
		}
	}
	for _, e := range ro {
		if want, got := skippedIn(Rb, e.ID), skippedIn(La, e.ID); want != got {
			add("C15:reconcile:skip-status-changed", "remote-only entry %s: skipped on the remote=%v, after reconcile=%v", e.ID[:7], want, got)
		}
	}
	if outcome != "reconciled" && outcome != "conflict-accepted" && changed && !sameIDs(La, Rb) {
		add("C15:reconcile:log-rewritten-without-divergence", "logs had not diverged but the local log changed from %s to %s", describe(Lb), describe(La))
	}
	return outcome, vs
}

// lcs aligns a with b on semKey; result[i] = index in b matched to a[i] or -1.
func lcs(a, b []entry) []int {
	n, m := len(a), len(b)
	dp := make([][]int, n+1)
	for i := range dp {
		dp[i] = make([]int, m+1)
	}
	for i := n - 1; i >= 0; i-- {
		for j := m - 1; j >= 0; j-- {
			if semKey(a[i]) == semKey(b[j]) {
				dp[i][j] = dp[i+1][j+1] + 1
			} else if dp[i+1][j] >= dp[i][j+1] {
				dp[i][j] = dp[i+1][j]
			} else {
				dp[i][j] = dp[i][j+1]
			}
		}
	}
	out := make([]int, n)
	for i := range out {
		out[i] = -1
	}
	i, j := 0, 0
	for i < n && j < m {
		switch {
		case semKey(a[i]) == semKey(b[j]):
			out[i] = j
			i++
			j++
		case dp[i+1][j] >= dp[i][j+1]:
			i++
		default:
			j++
		}
	}
	return out
}

func sameMultiset(a, b []entry) bool {
	if len(a) != len(b) {
		return false
	}
	c := map[string]int{}
	for _, e := range a {
		c[semKey(e)]++
	}
	for _, e := range b {
		c[semKey(e)]--
	}
	for _, v := range c {
		if v != 0 {
			return false
		}
	}
	return true
}

// judgeSync returns the outcome label and the violations of one Sync call.
func (p *pair) judgeSync(before, after *snap, reported []string, callErr error) (string, []viol) {
	vs := []viol{}
	add := func(sig, format string, a ...any) { vs = append(vs, viol{sig, fmt.Sprintf(format, a...)}) }
	Lb, Rb, La, Ra := before.localLog, before.remoteLog, after.localLog, after.remoteLog
	n := commonPrefix(Lb, Rb)
	lo := Lb[n:]
	overwrite := p.spec.Overwrite
	parts := []string{}

	// (1) a local reference only ever moves to the target of its latest
	// unskipped remote entry, and never off a diverged/ahead state without the flag
	lb, la := branches(before.localRefs), branches(after.localRefs)
	names := map[string]bool{}
	for k := range lb {
		names[k] = true
	}
	for k := range la {
		names[k] = true
	}
	sorted := []string{}
	for k := range names {
		sorted = append(sorted, k)
	}
	sort.Strings(sorted)
	moved, overwrote := false, false
	for _, ref := range sorted {
		b, a := lb[ref], la[ref]
		if a == b {
			continue
		}
		moved = true
		want, has := latestUnskipped(Rb, Rb, ref)
		if a == "" {
			add("C15:sync:local-ref-deleted", "sync deleted local %s (was %s)", ref, b[:7])
			continue
		}
		if !has || a != want.Target {
			wantS := "nothing (no unskipped remote entry)"
			if has {
				wantS = fmt.Sprintf("%s (%s entry %s)", want.Target[:7], want.Kind, want.ID[:7])
			}
			sig := "C15:sync:pull:ref-moved-to-unrecorded-state"
			for _, e := range Rb {
				if isUpdater(e) && e.Ref == ref && e.Target == a {
					if skippedIn(Rb, e.ID) {
						sig = "C15:sync:pull:ref-moved-to-skipped-entry"
					} else if has && want.Kind == "propagation" {
						sig = "C15:sync:propagation-entry-ignored-by-ref-tip-computation:pull-ref-moved-to-superseded-target"
					} else {
						sig = "C15:sync:pull:ref-moved-to-superseded-entry"
					}
				}
			}
			add(sig, "sync moved local %s from %s to %s but the latest unskipped remote entry for it records %s; remote log %s", shortName(ref), short(b), a[:7], wantS, describe(Rb))
			continue
		}
		if b != "" && !p.isAncestor(b, a) {
			overwrote = true
			if !overwrite {
				add("C15:sync:diverged-local-ref-overwritten-without-flag", "sync moved local %s from %s to %s, which does not descend from it, although overwriteLocalRefs was false", shortName(ref), b[:7], a[:7])
			}
		}
	}

	// (2) the local log
	switch {
	case sameIDs(La, Lb):
	case sameIDs(La, Rb):
		if len(lo) > 0 {
			overwrote = true
			parts = append(parts, "local-log-overwritten")
			if !overwrite {
				add("C15:sync:local-only-entries-dropped-without-flag", "sync replaced the local log %s by the remote log %s although overwriteLocalRefs was false", describe(Lb), describe(Rb))
			}
		} else {
			parts = append(parts, "pulled")
		}
	default:
		add("C15:sync:local-log-rewritten", "local log after sync %s is neither the earlier local log %s nor the remote log %s", describe(La), describe(Lb), describe(Rb))
	}

	// (3) publication: the remote log and references
	rb, ra := branches(before.remoteRefs), branches(after.remoteRefs)
	if !sameIDs(Ra, Rb) {
		parts = append(parts, "pushed")
		if !hasPrefix(Ra, Rb) {
			add("C15:sync:remote-log-rewound", "sync replaced the remote log %s by %s", describe(Rb), describe(Ra))
		}
		if !sameIDs(Ra, Lb) {
			add("C15:sync:push:remote-log-differs-from-local", "after the push the remote log %s is not the local log %s", describe(Ra), describe(Lb))
		}
		published := Ra[commonPrefix(Ra, Rb):]
		for _, ref := range []string{refA, refB} {
			e, ok := latestUnskipped(published, Ra, ref)
			if !ok {
				continue
			}
			if ra[ref] != e.Target {
				sig := "C15:sync:push:log-published-without-reference"
				if e.Kind == "propagation" {
					sig = "C15:sync:propagation-entry-ignored-by-ref-tip-computation:push-ref-not-published"
				}
				add(sig, "the remote now has the unskipped %s entry %s recording %s at %s but its %s is at %s; published %s", e.Kind, e.ID[:7], shortName(ref), e.Target[:7], shortName(ref), short(ra[ref]), describe(published))
			}
		}
	}
	for _, ref := range []string{refA, refB} {
		if ra[ref] == rb[ref] {
			continue
		}
		e, ok := latestUnskipped(Lb, Lb, ref)
		if !ok || e.Target != ra[ref] {
			add("C15:sync:push:remote-ref-moved-to-unrecorded-state", "sync moved remote %s from %s to %s which is not what the local log records for it", shortName(ref), short(rb[ref]), short(ra[ref]))
		}
	}

	if moved {
		parts = append(parts, "refs-moved")
	}
	if overwrote {
		parts = append(parts, "overwrote")
	}
	switch {
	case callErr == nil:
	case errors.Is(callErr, gittuf.ErrDivergedRefs):
		hasLog := false
		for _, r := range reported {
			if r == rslRef {
				hasLog = true
			}
		}
		if hasLog {
			parts = append(parts, "diverged-log-reported")
		} else {
			parts = append(parts, "diverged-refs-reported")
		}
	default:
		parts = append(parts, "error")
	}
	if len(parts) == 0 {
		parts = append(parts, "noop")
	}
	return strings.Join(parts, "+"), vs
}

func short(id string) string {
	if id == "" {
		return "(absent)"
	}
	return id[:7]
}

// ---------------------------------------------------------------------------
// one pair

type result struct {
	outcome string
	callErr string
	vs      []viol
	skipped bool
	ops     int
}

func runPair(tp *template, sp pairSpec) (res result, herr error) {
	p, err := buildPair(tp, sp)
	defer p.cleanup()
	if err != nil {
		return res, fmt.Errorf("building %s: %w", sp, err)
	}
	if err := p.applyStates(); err != nil {
		if errors.Is(err, errNotConstructible) {
			res.skipped = true
			return res, nil
		}
		return res, fmt.Errorf("reference states of %s: %w", sp, err)
	}
	before, err := p.snapshot(false)
	if err != nil {
		return res, fmt.Errorf("reading %s: %w", sp, err)
	}
	// self-check of the construction: the suffixes are what was asked for
	n := commonPrefix(before.localLog, before.remoteLog)
	if n != 2 || len(before.localLog)-n != len(sp.Local) || len(before.remoteLog)-n != len(sp.Remote) {
		return res, fmt.Errorf("construction of %s produced prefix %d, local-only %d, remote-only %d", sp, n, len(before.localLog)-n, len(before.remoteLog)-n)
	}
	rsl.ResetCacheForVerif()
	var callErr error
	var reported []string
	switch sp.Op {
	case "reconcile":
		callErr = p.gl.ReconcileLocalRSLWithRemote(world.Ctx, remoteName, false)
	case "sync":
		reported, callErr = p.gl.Sync(world.Ctx, remoteName, sp.Overwrite, false)
	default:
		return res, fmt.Errorf("unknown op %q", sp.Op)
	}
	rsl.ResetCacheForVerif()
	res.ops = p.ops + 1
	if callErr != nil {
		res.callErr = callErr.Error()
	}
	after, err := p.snapshot(true)
	if err != nil {
		// the operation left a log that the independent reader cannot walk
		res.vs = append(res.vs, viol{"C15:" + sp.Op + ":result-log-unreadable", fmt.Sprintf("after %s the logs cannot be read as a chain of well-formed entries: %v", sp.Op, err)})
		res.outcome = "unreadable"
		return res, nil
	}
	if sp.Op == "reconcile" {
		res.outcome, res.vs = judgeReconcile(before, after, callErr)
	} else {
		res.outcome, res.vs = p.judgeSync(before, after, reported, callErr)
	}
	return res, nil
}

func TestC15(t *testing.T) {
	col := evid.New("C15")
	defer func() {
		if err := col.Write(); err != nil {
			t.Fatal(err)
		}
	}()
	thorough := evid.Thorough()
	m := 2
	if thorough {
		m = 3
	}
	col.Bound("max_suffix_len", m)
	if thorough {
		col.Rule("all pairs over the suffix alphabet {rA, rB (reference entry at a new commit), pA (propagation entry for refA), a+T / a-T (annotation skip true/false naming T = first shared entry | an earlier non-annotation entry of the same suffix | both)} on top of a shared 2-entry prefix. reconcile: quick = every local-only suffix of length <= 2 (plus the twelve length-3 suffixes in which one entry carries two annotations) x every remote-only suffix of length <= 1; thorough = (local <= 3 x remote <= 1) and (local <= 2 x remote <= 2). sync push: every local-only suffix <= %d x overwriteLocalRefs. sync pull: every non-empty remote-only suffix <= %d x local state of the references it names (as recorded/behind, equal, ahead, diverged, absent; one reference varied at a time, in thorough all combinations for suffixes <= 2) x overwriteLocalRefs. sync with diverged logs: local-only {rA | rB | pA | a+S} x non-empty remote-only suffix <= %d x states x flag. Each pair is built on two real git repositories and one API call is executed; a class is (operation, local suffix shape, remote suffix shape, reference states, flag, outcome)", m, m, m-1)
	} else {
		col.Rule("quick tier, reduced alphabet on top of a shared 2-entry prefix: suffixes of length <= 2 over {rA, rB (reference entry at a new commit), pA (propagation entry for refA), a+S (skip annotation of the first shared entry), a+0 (skip annotation of the suffix's first entry)} plus the twelve length-3 suffixes in which one entry carries two annotations (skip / plain note, both orders). reconcile: every such local-only suffix x remote-only suffix in {[], rA, rB, a+S}. sync push: every non-empty local-only suffix. sync pull: every non-empty remote-only suffix x local state {as recorded; each named reference ahead, diverged, diverged with overwriteLocalRefs}. sync with diverged logs: local-only {rA | a+S} x remote-only {rA | rB | pA | a+S} x the same states. Each pair is built on two real git repositories and one API call is executed; a class is (operation, local suffix shape, remote suffix shape, reference states, flag, outcome)")
	}
	col.Assume("policy-free repositories (Sync's propagation step finds no policy and records nothing); unsigned entries; local file transport between the clone and the bare remote")
	col.Assume("branch references of each side are in the state its own log records unless a local reference state is enumerated explicitly")
	col.Assume("certain conflict = both suffixes hold an unskipped reference or propagation entry for one reference; when the overlap involves only skipped entries both refusal (changing nothing) and a faithful replay are accepted")
	col.Assume("updating the remote tracker reference to the true remote tip during a refused reconcile is not counted as a change (it mirrors the remote, it is not local log or reference state)")

	if rf := evid.ReplayFile(); rf != "" {
		var sp pairSpec
		if err := evid.LoadReplay(rf, &sp); err != nil {
			col.Fail(err.Error())
			return
		}
		func() {
			tp, err := buildTemplate(t)
			if err != nil {
				col.Fail("template: " + err.Error())
				return
			}
			res, err := runPair(tp, sp)
			if err != nil {
				col.Fail(err.Error())
				return
			}
			if res.skipped {
				t.Logf("replay %s: the requested local reference state cannot be constructed (no unskipped remote entry for the reference); nothing executed", sp)
				return
			}
			col.Inc("evaluations")
			col.Inc("states")
			col.Add("transitions", int64(res.ops))
			t.Logf("replay %s: outcome=%s err=%q violations=%d", sp, res.outcome, res.callErr, len(res.vs))
			for _, v := range res.vs {
				t.Logf("  %s: %s", v.sig, v.what)
				col.Violation(v.sig, v.what, sp)
			}
		}()
		return
	}

	specs := enumerate(thorough)
	tp, err := buildTemplate(t)
	if err != nil {
		col.Fail("template: " + err.Error())
		return
	}
	col.Bound("pairs_total", len(specs))
	sampled := map[string]bool{}
	for k, sp := range specs {
		if !evid.Mine(k) {
			continue
		}
		if col.Expired() {
			return
		}
		t0 := time.Now()
		res, herr := runPair(tp, sp)
		if herr != nil {
			col.Fail(herr.Error())
			return
		}
		if res.skipped {
			col.Inc("pairs_state_not_constructible")
			continue
		}
		if ms := time.Since(t0).Milliseconds(); true {
			col.Add("pair_ms_total", ms)
		}
		col.Inc("states")
		col.Inc("evaluations")
		col.Inc("traces_validated_against_impl")
		col.Add("transitions", int64(res.ops))
		col.Inc(sp.Op + "_pairs")
		for _, part := range strings.Split(res.outcome, "+") {
			col.Inc(sp.Op + "_" + strings.ReplaceAll(part, "-", "_"))
		}
		st := []string{}
		for _, r := range []string{refA, refB} {
			if s, ok := sp.States[r]; ok {
				st = append(st, shortRef(r)+"="+s)
			}
		}
		verdict := "ok"
		if len(res.vs) > 0 {
			verdict = "violation"
		}
		class := fmt.Sprintf("%s/local:%s/remote:%s/states:%s/overwrite:%v/%s/%s", sp.Op, shape(sp.Local), shape(sp.Remote), strings.Join(st, ","), sp.Overwrite, res.outcome, verdict)
		col.Class("%s", class)
		key := sp.Op + "/" + res.outcome
		if !sampled[key] {
			sampled[key] = true
			col.Sample(map[string]any{"pair": sp, "outcome": res.outcome, "error": res.callErr, "violations": len(res.vs)})
		}
		seen := map[string]bool{}
		for _, v := range res.vs {
			if seen[v.sig] {
				continue
			}
			seen[v.sig] = true
			col.Violation(v.sig, sp.String()+": "+v.what, sp)
		}
		if len(res.vs) > 0 {
			col.Inc("pairs_with_violation")
		} else {
			col.Inc("pairs_held")
		}
	}
}
