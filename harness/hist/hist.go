// Package hist builds histories for the E1 explorer: each event is applied to
// a real store through gittuf's own recording code AND appended to the
// abstract history the reference verifier (refver) judges. The policy spec is
// the single source from which both the real metadata and the abstract policy
// are derived mechanically.
package hist

import (
	"encoding/base64"
	"encoding/json"
	"fmt"
	"path"
	"sort"
	"strings"

	"github.com/gittuf/gittuf/internal/attestations"
	authorizationsv01 "github.com/gittuf/gittuf/internal/attestations/authorizations/v01"
	"github.com/gittuf/gittuf/internal/common/set"
	"github.com/gittuf/gittuf/internal/policy"
	gdsse "github.com/gittuf/gittuf/internal/signerverifier/dsse"
	sslibdsse "github.com/gittuf/gittuf/internal/third_party/go-securesystemslib/dsse"
	"github.com/gittuf/gittuf/internal/tuf"
	tufv01 "github.com/gittuf/gittuf/internal/tuf/v01"
	tufv02 "github.com/gittuf/gittuf/internal/tuf/v02"
	"github.com/gittuf/gittuf/pkg/githash"
	"github.com/gittuf/gittuf/pkg/gitstore"
	"github.com/gittuf/gittuf/pkg/rsl"
	"github.com/gittuf/gittuf/verif/keys"
	"github.com/gittuf/gittuf/verif/memstore"
	"github.com/gittuf/gittuf/verif/refver"
	"github.com/gittuf/gittuf/verif/world"
)

// ---- policy specs ----

type PrincipalSpec struct {
	ID         string            // "" => key principal whose id is the key id
	Keys       []string          // key names (keys.Get)
	Identities map[string]string // app name -> identity (makes it a Person)
}

type RuleSpec struct {
	Name        string
	Patterns    []string
	Principals  []string // principal names (see PolicySpec.Principals)
	Threshold   int
	Terminating bool
}

type FileSpec struct {
	Rules   []RuleSpec
	Signers []string // key names that sign this rule file
	Version uint64   // 0 => use the publication counter
}

type GlobalSpec struct {
	Name      string
	Kind      string // threshold | block-force-pushes
	Patterns  []string
	Threshold int
}

type AppSpec struct {
	Name    string
	Key     string
	Trusted bool
}

type PolicySpec struct {
	Name             string
	RootKeys         []string
	RootThreshold    int
	RootSigners      []string
	RootVersion      uint64 // 0 => publication counter
	TargetsKeys      []string
	TargetsThreshold int
	Principals       map[string]PrincipalSpec // name -> principal
	Files            map[string]FileSpec      // "targets" and delegated files
	Global           []GlobalSpec
	Apps             []AppSpec
	NoTargets        bool
}

func (ps *PolicySpec) principal(name string) tuf.Principal {
	p, ok := ps.Principals[name]
	if !ok {
		// default: a key principal named after its key
		return keys.Get(name).TUFKey()
	}
	if p.ID == "" && len(p.Keys) == 1 && p.Identities == nil {
		return keys.Get(p.Keys[0]).TUFKey()
	}
	ks := []*keys.Key{}
	for _, k := range p.Keys {
		ks = append(ks, keys.Get(k))
	}
	id := p.ID
	if id == "" {
		id = name
	}
	return keys.Person(id, p.Identities, ks...)
}

// PrincipalID returns the tuf principal id for a principal name.
func (ps *PolicySpec) PrincipalID(name string) string { return ps.principal(name).ID() }

func keyIDs(names []string) []string {
	out := []string{}
	for _, n := range names {
		out = append(out, keys.Get(n).KeyID)
	}
	return out
}

// Build produces the real policy state for the spec. version is used for
// every metadata file that does not pin its own version.
func (ps *PolicySpec) Build(version uint64) *policy.State {
	rootP := []tuf.Principal{}
	for _, k := range ps.RootKeys {
		rootP = append(rootP, keys.Get(k).TUFKey())
	}
	var targetsP []tuf.Principal
	for _, k := range ps.TargetsKeys {
		targetsP = append(targetsP, keys.Get(k).TUFKey())
	}
	rv := ps.RootVersion
	if rv == 0 {
		rv = version
	}
	root := world.Root(rv, rootP, ps.RootThreshold, targetsP, ps.TargetsThreshold)
	for _, g := range ps.Global {
		switch g.Kind {
		case "threshold":
			root.GlobalRules = append(root.GlobalRules, tufv01.NewGlobalRuleThreshold(g.Name, g.Patterns, g.Threshold))
		case "block-force-pushes":
			gr, err := tufv01.NewGlobalRuleBlockForcePushes(g.Name, g.Patterns)
			if err != nil {
				panic(err)
			}
			root.GlobalRules = append(root.GlobalRules, gr)
		}
	}
	for _, a := range ps.Apps {
		k := keys.Get(a.Key).TUFKey()
		root.Principals[k.ID()] = k
		if root.GitHubApps == nil {
			root.GitHubApps = map[string]*tufv02.GitHubApp{}
		}
		root.GitHubApps[a.Name] = &tufv02.GitHubApp{Trusted: a.Trusted, PrincipalIDs: set.NewSetFromItems(k.ID()), Threshold: 1}
	}
	signers := func(names []string) []*keys.Key {
		out := []*keys.Key{}
		for _, n := range names {
			out = append(out, keys.Get(n))
		}
		return out
	}
	rootEnv := world.Envelope(root, signers(ps.RootSigners)...)
	var targetsEnv *sslibdsse.Envelope
	delegs := map[string]*sslibdsse.Envelope{}
	fileNames := []string{}
	for n := range ps.Files {
		fileNames = append(fileNames, n)
	}
	sort.Strings(fileNames)
	for _, name := range fileNames {
		f := ps.Files[name]
		principals := []tuf.Principal{}
		seen := map[string]bool{}
		rules := []world.RuleSpec{}
		for _, r := range f.Rules {
			ids := []string{}
			for _, pn := range r.Principals {
				p := ps.principal(pn)
				if !seen[p.ID()] {
					seen[p.ID()] = true
					principals = append(principals, p)
				}
				ids = append(ids, p.ID())
			}
			rules = append(rules, world.RuleSpec{Name: r.Name, Patterns: r.Patterns, Principals: ids, Threshold: r.Threshold, Terminating: r.Terminating})
		}
		v := f.Version
		if v == 0 {
			v = version
		}
		md := world.Targets(v, principals, rules)
		env := world.Envelope(md, signers(f.Signers)...)
		if name == "targets" {
			targetsEnv = env
		} else {
			delegs[name] = env
		}
	}
	if len(delegs) == 0 {
		delegs = nil
	}
	if ps.NoTargets {
		targetsEnv = nil
	}
	return world.State(rootEnv, targetsEnv, delegs)
}

// Abstract derives the reference verifier's view of the spec. Validity flags
// are set by the caller (they depend on the predecessor).
func (ps *PolicySpec) Abstract() *refver.Policy {
	p := &refver.Policy{Name: ps.Name, Files: map[string][]refver.Rule{}, Keys: map[string][]string{}, Identities: map[string]map[string]string{}, Valid: true, RootValid: true, SelfValid: true}
	addPrincipal := func(name string) string {
		tp := ps.principal(name)
		ks := []string{}
		for _, k := range tp.Keys() {
			ks = append(ks, k.KeyID)
		}
		sort.Strings(ks)
		p.Keys[tp.ID()] = ks
		if spec, ok := ps.Principals[name]; ok && spec.Identities != nil {
			p.Identities[tp.ID()] = spec.Identities
		}
		return tp.ID()
	}
	for _, k := range ps.RootKeys {
		p.Keys[keys.Get(k).KeyID] = []string{keys.Get(k).KeyID}
	}
	for _, k := range ps.TargetsKeys {
		p.Keys[keys.Get(k).KeyID] = []string{keys.Get(k).KeyID}
	}
	for name, f := range ps.Files {
		rules := []refver.Rule{}
		for _, r := range f.Rules {
			rr := refver.Rule{Name: r.Name, Patterns: r.Patterns, Threshold: r.Threshold, Terminating: r.Terminating}
			for _, pn := range r.Principals {
				rr.Principals = append(rr.Principals, addPrincipal(pn))
			}
			for _, pat := range r.Patterns {
				if strings.HasPrefix(pat, "file:") {
					p.HasFileRules = true
				}
			}
			rules = append(rules, rr)
		}
		p.Files[name] = rules
	}
	for _, g := range ps.Global {
		p.Global = append(p.Global, refver.GlobalRule{Name: g.Name, Kind: g.Kind, Patterns: g.Patterns, Threshold: g.Threshold})
	}
	for _, a := range ps.Apps {
		kid := keys.Get(a.Key).KeyID
		p.Keys[kid] = []string{kid}
		p.Apps = append(p.Apps, refver.App{Name: a.Name, Keys: []string{kid}, Trusted: a.Trusted, Threshold: 1})
	}
	return p
}

// Built records what was actually published for a policy entry: the spec and
// the version numbers used.
type Built struct {
	Spec         *PolicySpec
	RootVersion  uint64
	FileVersions map[string]uint64
}

func (ps *PolicySpec) built(version uint64) *Built {
	b := &Built{Spec: ps, RootVersion: ps.RootVersion, FileVersions: map[string]uint64{}}
	if b.RootVersion == 0 {
		b.RootVersion = version
	}
	for n, f := range ps.Files {
		v := f.Version
		if v == 0 {
			v = version
		}
		b.FileVersions[n] = v
	}
	return b
}

func countSigners(signers, trusted []string) int {
	seen := map[string]bool{}
	for _, s := range signers {
		for _, t := range trusted {
			if s == t {
				seen[s] = true
			}
		}
	}
	return len(seen)
}

// SelfValid states C02's conditions on a policy state by itself: root signed
// by its own root threshold, primary rule file signed by the threshold of the
// principals its root names, every delegated file reachable and signed as the
// delegating rule requires, nothing unreachable.
func (ps *PolicySpec) SelfValid() bool {
	if ps.RootThreshold < 1 || countSigners(ps.RootSigners, ps.RootKeys) < ps.RootThreshold {
		return false
	}
	t, hasTargets := ps.Files["targets"]
	if !hasTargets || ps.NoTargets {
		return len(ps.Files) == 0 || (len(ps.Files) == 1 && hasTargets && ps.NoTargets)
	}
	if ps.TargetsThreshold < 1 || countSigners(t.Signers, ps.TargetsKeys) < ps.TargetsThreshold {
		return false
	}
	reached := map[string]bool{"targets": true}
	var visit func(file string) bool
	visit = func(file string) bool {
		for _, r := range ps.Files[file].Rules {
			d, has := ps.Files[r.Name]
			if !has || r.Name == "targets" {
				continue
			}
			// signed by threshold of the delegating rule's principals (by key)
			trusted := []string{}
			for _, pn := range r.Principals {
				if spec, ok := ps.Principals[pn]; ok {
					trusted = append(trusted, spec.Keys...)
				} else {
					trusted = append(trusted, pn)
				}
			}
			if r.Threshold < 1 || countSigners(d.Signers, trusted) < r.Threshold {
				return false
			}
			if !reached[r.Name] {
				reached[r.Name] = true
				if !visit(r.Name) {
					return false
				}
			}
		}
		return true
	}
	if !visit("targets") {
		return false
	}
	for n := range ps.Files {
		if !reached[n] {
			return false
		}
	}
	return true
}

// SuccessorValid states C02's conditions on a policy state relative to the one
// it replaces: root signed by the threshold of the predecessor's root
// principals, versions never decrease, rule files never disappear.
func SuccessorValid(prev, next *Built) bool {
	if prev == nil {
		return true
	}
	if countSigners(next.Spec.RootSigners, prev.Spec.RootKeys) < prev.Spec.RootThreshold {
		return false
	}
	if next.RootVersion < prev.RootVersion {
		return false
	}
	if prev.Spec.NoTargets {
		return true
	}
	for n, v := range prev.FileVersions {
		nv, ok := next.FileVersions[n]
		if !ok || (n == "targets" && next.Spec.NoTargets) {
			return false
		}
		if nv < v {
			return false
		}
	}
	return true
}

// ---- world: commit graph ----

type CommitSpec struct {
	Name    string
	Files   map[string]string
	Parents []string
	Signer  string // key name, "" unsigned
}

type World struct {
	Commits map[string]githash.Hash
	Specs   map[string]CommitSpec
	Trees   map[string]githash.Hash
	Tags    map[string]githash.Hash // abstract name -> tag object id
	TagOf   map[string]string       // tag name -> commit name
	// TagSigners maps tag name -> key name that signed the tag object
	TagSigners map[string]string
}

func NewWorld() *World {
	return &World{Commits: map[string]githash.Hash{}, Specs: map[string]CommitSpec{}, Trees: map[string]githash.Hash{}, Tags: map[string]githash.Hash{}, TagOf: map[string]string{}, TagSigners: map[string]string{}}
}

// AddCommit writes the commit (parents must exist already).
func (w *World) AddCommit(b world.Backend, c CommitSpec) {
	tree := world.Tree(b, c.Files)
	parents := []githash.Hash{}
	for _, p := range c.Parents {
		parents = append(parents, w.Commits[p])
	}
	var k *keys.Key
	if c.Signer != "" {
		k = keys.Get(c.Signer)
	}
	w.Commits[c.Name] = world.Commit(b, tree, parents, c.Name, k)
	w.Trees[c.Name] = tree
	w.Specs[c.Name] = c
}

// AddTag writes an annotated tag object named name for commit, signed by signer.
func (w *World) AddTag(b world.Backend, name, tagName, commit, signer string) {
	var pem []byte
	if signer != "" {
		pem = keys.Get(signer).PEM
	}
	id, err := b.PutTag(w.Commits[commit], tagName, "tag "+name, pem)
	if err != nil {
		panic(err)
	}
	w.Tags[name] = id
	w.TagOf[name] = commit
	w.TagSigners[name] = signer
}

// refver.Objects implementation.
func (w *World) resolve(name string) string {
	if c, ok := w.TagOf[name]; ok {
		return c
	}
	return name
}
func (w *World) Tree(commit string) string { return w.Trees[w.resolve(commit)].String() }
func (w *World) ApprovalTo(commit string) string {
	if c, ok := w.TagOf[commit]; ok {
		return w.Commits[c].String()
	}
	return w.Trees[commit].String()
}
func (w *World) ID(commit string) string {
	if t, ok := w.Tags[commit]; ok {
		return t.String()
	}
	return w.Commits[commit].String()
}
func (w *World) Hash(commit string) githash.Hash {
	if t, ok := w.Tags[commit]; ok {
		return t
	}
	return w.Commits[commit]
}
func (w *World) Descends(commit, ancestor string) bool {
	commit, ancestor = w.resolve(commit), w.resolve(ancestor)
	if commit == ancestor {
		return true
	}
	for _, p := range w.Specs[commit].Parents {
		if w.Descends(p, ancestor) {
			return true
		}
	}
	return false
}
func (w *World) CommitSigner(commit string) string {
	s := w.Specs[w.resolve(commit)].Signer
	if s == "" {
		return ""
	}
	return keys.Get(s).KeyID
}
func (w *World) TagSigner(tag string) string {
	s := w.TagSigners[tag]
	if s == "" {
		return ""
	}
	return keys.Get(s).KeyID
}
func (w *World) ancestors(c string, out map[string]bool) {
	if out[c] {
		return
	}
	out[c] = true
	for _, p := range w.Specs[c].Parents {
		w.ancestors(p, out)
	}
}
func (w *World) NewCommits(commit, since string) []string {
	a, b := map[string]bool{}, map[string]bool{}
	w.ancestors(w.resolve(commit), a)
	if since != "" {
		w.ancestors(w.resolve(since), b)
	}
	out := []string{}
	for c := range a {
		if !b[c] {
			out = append(out, c)
		}
	}
	sort.Strings(out)
	return out
}
func (w *World) ChangedPaths(commit string) []string {
	c := w.Specs[commit]
	diff := func(a, b map[string]string) map[string]bool {
		out := map[string]bool{}
		for p, v := range a {
			if bv, ok := b[p]; !ok || bv != v {
				out[p] = true
			}
		}
		for p, v := range b {
			if av, ok := a[p]; !ok || av != v {
				out[p] = true
			}
		}
		return out
	}
	set := map[string]bool{}
	switch len(c.Parents) {
	case 0:
		for p := range c.Files {
			set[p] = true
		}
	case 1:
		set = diff(w.Specs[c.Parents[0]].Files, c.Files)
	default:
		last := diff(w.Specs[c.Parents[len(c.Parents)-1]].Files, c.Files)
		if len(last) == 0 {
			return nil
		}
		for _, p := range c.Parents {
			for k := range diff(w.Specs[p].Files, c.Files) {
				set[k] = true
			}
		}
	}
	out := []string{}
	for p := range set {
		out = append(out, p)
	}
	sort.Strings(out)
	return out
}

// ---- events ----

type Event struct {
	Kind string `json:"kind"` // push | policy | approve | annotate | propagate | staging | attest-raw
	Ref  string `json:"ref,omitempty"`
	// push / propagate: commit (or tag) name; Signer key name ("" unsigned)
	Commit string `json:"commit,omitempty"`
	Signer string `json:"signer,omitempty"`
	// policy: index into the scenario's policy menu
	Policy int `json:"policy,omitempty"`
	// approve: authorisation for (Ref, current tip of Ref, Commit) signed by Signers
	Signers []string `json:"signers,omitempty"`
	// annotate
	Names []int `json:"names,omitempty"`
	Skip  bool  `json:"skip,omitempty"`
}

func (e Event) String() string {
	switch e.Kind {
	case "push":
		return fmt.Sprintf("push(%s,%s,by=%s)", short(e.Ref), e.Commit, orNone(e.Signer))
	case "propagate":
		return fmt.Sprintf("propagate(%s,%s,by=%s)", short(e.Ref), e.Commit, orNone(e.Signer))
	case "policy":
		return fmt.Sprintf("policy(%d)", e.Policy)
	case "approve":
		return fmt.Sprintf("approve(%s->%s,by=%s)", short(e.Ref), e.Commit, strings.Join(e.Signers, "+"))
	case "annotate":
		return fmt.Sprintf("annotate(%v,skip=%v)", e.Names, e.Skip)
	}
	return e.Kind
}

func short(ref string) string {
	return strings.TrimPrefix(strings.TrimPrefix(ref, "refs/heads/"), "refs/")
}
func orNone(s string) string {
	if s == "" {
		return "none"
	}
	return s
}

// Hist is one history: the real store plus the abstract record.
type Hist struct {
	MS       *memstore.Store
	W        *World
	Policies []*PolicySpec
	A        refver.History
	IDs      []githash.Hash // RSL entry id of each abstract entry
	Events   []Event
	PolCount uint64
	LastPol  *Built
	// Snaps[i] is a snapshot of the store right after abstract entry i was
	// recorded (only kept when KeepSnaps is set).
	KeepSnaps bool
	Snaps     []*memstore.Store
	att       *attTree // cumulative real attestation tree
}

type attTree struct {
	files map[string]githash.Hash
	abs   refver.AttState
}

func New(ms *memstore.Store, w *World, policies []*PolicySpec) *Hist {
	h := &Hist{MS: ms, W: w, Policies: policies}
	h.A.Obj = w
	return h
}

// Fork returns an independent copy (store snapshot, copied abstract record).
func (h *Hist) Fork() *Hist {
	n := &Hist{MS: h.MS.Snapshot(), W: h.W, Policies: h.Policies, PolCount: h.PolCount, LastPol: h.LastPol, KeepSnaps: h.KeepSnaps}
	n.Snaps = append([]*memstore.Store(nil), h.Snaps...)
	n.A = refver.History{Entries: append([]refver.Entry(nil), h.A.Entries...), Obj: h.A.Obj, PropagationStrict: h.A.PropagationStrict}
	n.IDs = append([]githash.Hash(nil), h.IDs...)
	n.Events = append([]Event(nil), h.Events...)
	if h.att != nil {
		n.att = &attTree{files: map[string]githash.Hash{}, abs: refver.AttState{Auths: append([]refver.Auth(nil), h.att.abs.Auths...), Approvals: append([]refver.Approval(nil), h.att.abs.Approvals...)}}
		for k, v := range h.att.files {
			n.att.files[k] = v
		}
	}
	return n
}

func (h *Hist) tip() githash.Hash {
	id, _ := githash.NewHash(h.MS.Ref(rsl.Ref))
	return id
}

func (h *Hist) push(e refver.Entry, ev Event) {
	h.A.Entries = append(h.A.Entries, e)
	h.IDs = append(h.IDs, h.tip())
	h.Events = append(h.Events, ev)
}

func keyOrNil(name string) *keys.Key {
	if name == "" {
		return nil
	}
	return keys.Get(name)
}

func signerID(name string) string {
	if name == "" {
		return ""
	}
	return keys.Get(name).KeyID
}

// CurrentTip returns the abstract commit name recorded by the latest updater
// entry for ref ("" if none).
func (h *Hist) CurrentTip(ref string) string {
	for i := len(h.A.Entries) - 1; i >= 0; i-- {
		e := h.A.Entries[i]
		if (e.Kind == refver.Push || e.Kind == refver.Propagation) && e.Ref == ref {
			return e.Commit
		}
	}
	return ""
}

// Apply performs the event on the real store and appends the abstract entry.
func (h *Hist) Apply(ev Event) error {
	if err := h.apply(ev); err != nil {
		return err
	}
	if h.KeepSnaps {
		for len(h.Snaps) < len(h.A.Entries) {
			h.Snaps = append(h.Snaps, h.MS.Snapshot())
		}
	}
	return nil
}

func (h *Hist) apply(ev Event) error {
	switch ev.Kind {
	case "push":
		if err := world.Record(h.MS, ev.Ref, h.W.Hash(ev.Commit), keyOrNil(ev.Signer)); err != nil {
			return err
		}
		_, isTag := h.W.Tags[ev.Commit]
		if isTag {
			// verification of a tag entry reads the tag ref
			h.MS.Refs[ev.Ref] = h.W.Hash(ev.Commit).String()
		}
		h.push(refver.Entry{Kind: refver.Push, Ref: ev.Ref, Commit: ev.Commit, Signer: signerID(ev.Signer), IsTag: isTag}, ev)
	case "propagate":
		pe := rsl.NewPropagationEntry(ev.Ref, h.W.Hash(ev.Commit), "https://upstream.example/repo", h.W.Hash(ev.Commit))
		var err error
		if ev.Signer == "" {
			err = pe.Commit(h.MS, false)
		} else {
			err = pe.CommitUsingSpecificKey(h.MS, keys.Get(ev.Signer).PEM)
		}
		if err != nil {
			return err
		}
		h.push(refver.Entry{Kind: refver.Propagation, Ref: ev.Ref, Commit: ev.Commit, Signer: signerID(ev.Signer)}, ev)
	case "policy":
		h.PolCount++
		spec := h.Policies[ev.Policy]
		st := spec.Build(h.PolCount)
		if _, err := world.PublishPolicy(h.MS, st, false); err != nil {
			return err
		}
		ap := spec.Abstract()
		b := spec.built(h.PolCount)
		ap.RootValid = SuccessorValid(h.LastPol, b)
		ap.SelfValid = spec.SelfValid()
		ap.Valid = ap.RootValid && ap.SelfValid
		h.LastPol = b
		h.push(refver.Entry{Kind: refver.PolicyEntry, Ref: policy.PolicyRef, Policy: ap}, ev)
	case "staging":
		h.PolCount++
		st := h.Policies[ev.Policy].Build(h.PolCount)
		if err := st.Commit(h.MS, "stage", true, false); err != nil {
			return err
		}
		h.push(refver.Entry{Kind: refver.Staging, Ref: policy.PolicyStagingRef}, ev)
	case "approve":
		from := h.MS.ZeroHash().String()
		if t := h.CurrentTip(ev.Ref); t != "" {
			from = h.W.ID(t)
		}
		to := h.W.ApprovalTo(ev.Commit)
		_, isTag := h.W.Tags[ev.Commit]
		au := refver.Auth{StoredRef: ev.Ref, StoredFrom: from, StoredTo: to, Ref: ev.Ref, From: from, To: to, Signers: keyIDs(ev.Signers)}
		if err := h.AddAuth(au, ev.Signers, isTag); err != nil {
			return err
		}
		if err := h.CommitAttestations(); err != nil {
			return err
		}
		h.Events = append(h.Events, ev)
	case "annotate":
		ids := []githash.Hash{}
		for _, n := range ev.Names {
			ids = append(ids, h.IDs[n])
		}
		if err := world.Annotate(h.MS, ids, ev.Skip, "", keyOrNil(ev.Signer)); err != nil {
			return err
		}
		h.push(refver.Entry{Kind: refver.Annotation, Names: ev.Names, Skip: ev.Skip, Signer: signerID(ev.Signer)}, ev)
	default:
		return fmt.Errorf("unknown event kind %q", ev.Kind)
	}
	return nil
}

// ---- attestations written directly (bypassing the validating setters) ----

// AuthEnvelope builds a reference authorization statement for (ref, from, to)
// signed by the given key names.
func AuthEnvelope(ref, from, to string, isTag bool, signers []string) (*sslibdsse.Envelope, error) {
	return AuthEnvelopeV(ref, from, to, isTag, signers, false)
}

// AuthEnvelopeV is AuthEnvelope with a choice of the legacy v0.1 statement.
func AuthEnvelopeV(ref, from, to string, isTag bool, signers []string, v01 bool) (*sslibdsse.Envelope, error) {
	var stmt any
	var err error
	if v01 {
		stmt, err = authorizationsv01.NewReferenceAuthorization(ref, from, to)
	} else if isTag {
		stmt, err = attestations.NewReferenceAuthorizationForTag(ref, from, to)
	} else {
		stmt, err = attestations.NewReferenceAuthorizationForCommit(ref, from, to)
	}
	if err != nil {
		return nil, err
	}
	env, err := gdsse.CreateEnvelope(stmt)
	if err != nil {
		return nil, err
	}
	for _, s := range signers {
		if err := keys.SignEnvelope(env, keys.Get(s)); err != nil {
			return nil, err
		}
	}
	return env, nil
}

func (h *Hist) ensureAtt() {
	if h.att == nil {
		h.att = &attTree{files: map[string]githash.Hash{}}
	}
}

// AddAuth stores an authorization whose STATEMENT names (au.Ref, au.From,
// au.To) at the PATH of (au.StoredRef, au.StoredFrom, au.StoredTo).
func (h *Hist) AddAuth(au refver.Auth, signerNames []string, isTag bool) error {
	return h.AddAuthV(au, signerNames, isTag, false)
}

// AddAuthV is AddAuth with a choice of the legacy v0.1 statement.
func (h *Hist) AddAuthV(au refver.Auth, signerNames []string, isTag, v01 bool) error {
	h.ensureAtt()
	env, err := AuthEnvelopeV(au.Ref, au.From, au.To, isTag, signerNames, v01)
	if err != nil {
		return err
	}
	b, err := json.Marshal(env)
	if err != nil {
		return err
	}
	id, err := h.MS.WriteBlob(b)
	if err != nil {
		return err
	}
	p := path.Join("reference-authorizations", attestations.ReferenceAuthorizationPath(au.StoredRef, au.StoredFrom, au.StoredTo))
	h.att.files[p] = id
	// replace an earlier auth stored at the same path
	kept := h.att.abs.Auths[:0:0]
	for _, x := range h.att.abs.Auths {
		if !(x.StoredRef == au.StoredRef && x.StoredFrom == au.StoredFrom && x.StoredTo == au.StoredTo) {
			kept = append(kept, x)
		}
	}
	h.att.abs.Auths = append(kept, au)
	return nil
}

// AddApproval stores a code-review approval blob likewise.
func (h *Hist) AddApproval(ap refver.Approval, signerNames []string) error {
	h.ensureAtt()
	stmt, err := attestations.NewGitHubPullRequestApprovalAttestation(ap.Ref, ap.From, ap.To, ap.Approvers, ap.Dismissed)
	if err != nil {
		return err
	}
	env, err := gdsse.CreateEnvelope(stmt)
	if err != nil {
		return err
	}
	for _, s := range signerNames {
		if err := keys.SignEnvelope(env, keys.Get(s)); err != nil {
			return err
		}
	}
	b, err := json.Marshal(env)
	if err != nil {
		return err
	}
	id, err := h.MS.WriteBlob(b)
	if err != nil {
		return err
	}
	p := path.Join("code-review-approvals", attestations.GitHubPullRequestApprovalAttestationPath(ap.StoredRef, ap.StoredFrom, ap.StoredTo), base64.URLEncoding.EncodeToString([]byte(ap.StoredApp)))
	h.att.files[p] = id
	h.att.abs.Approvals = append(h.att.abs.Approvals, ap)
	return nil
}

// CommitAttestations commits the cumulative attestation tree to the
// attestations ref and records its RSL entry; appends the abstract entry.
func (h *Hist) CommitAttestations() error {
	h.ensureAtt()
	entries := []gitstore.TreeEntry{}
	names := []string{}
	for p := range h.att.files {
		names = append(names, p)
	}
	sort.Strings(names)
	for _, p := range names {
		entries = append(entries, gitstore.TreeEntry{Path: p, ID: h.att.files[p], Kind: gitstore.KindBlob})
	}
	tree, err := h.MS.WriteTree(entries)
	if err != nil {
		return err
	}
	c, err := h.MS.Commit(tree, attestations.Ref, "attest", false)
	if err != nil {
		return err
	}
	if err := rsl.NewReferenceEntry(attestations.Ref, c).Commit(h.MS, false); err != nil {
		return err
	}
	snap := &refver.AttState{Auths: append([]refver.Auth(nil), h.att.abs.Auths...), Approvals: append([]refver.Approval(nil), h.att.abs.Approvals...)}
	h.A.Entries = append(h.A.Entries, refver.Entry{Kind: refver.AttestEntry, Ref: attestations.Ref, Att: snap})
	h.IDs = append(h.IDs, h.tip())
	return nil
}

// Describe renders the event list.
func (h *Hist) Describe() string {
	parts := []string{}
	for _, e := range h.Events {
		parts = append(parts, e.String())
	}
	return strings.Join(parts, " ; ")
}
