// Package keys provides the deterministic ed25519 SSH key pairs, tuf
// principals and in-process signers used by all explorers. Cryptography is not
// explored: a signature is produced by the real algorithm over the real bytes
// or it is absent / lifted from other bytes.
package keys

import (
	"context"
	"crypto/ed25519"
	"crypto/sha256"
	"encoding/base64"
	"encoding/pem"
	"fmt"
	"sync"

	sslibdsse "github.com/gittuf/gittuf/internal/third_party/go-securesystemslib/dsse"
	"github.com/gittuf/gittuf/internal/tuf"
	tufv02 "github.com/gittuf/gittuf/internal/tuf/v02"
	"github.com/gittuf/gittuf/verif/memstore"
	"github.com/secure-systems-lab/go-securesystemslib/signerverifier"
	"golang.org/x/crypto/ssh"
)

// Key is one deterministic ed25519 SSH key pair.
type Key struct {
	Name   string
	PEM    []byte // OpenSSH private key
	Pub    ssh.PublicKey
	KeyID  string // SHA256 fingerprint, as gittuf computes it
	SSLib  *signerverifier.SSLibKey
	signer ssh.Signer
}

var (
	mu    sync.Mutex
	cache = map[string]*Key{}
)

// Get returns the key pair derived from name (same name => same key).
func Get(name string) *Key {
	mu.Lock()
	defer mu.Unlock()
	if k, ok := cache[name]; ok {
		return k
	}
	seed := sha256.Sum256([]byte("gittuf-verif-key:" + name))
	priv := ed25519.NewKeyFromSeed(seed[:])
	block, err := ssh.MarshalPrivateKey(priv, "")
	if err != nil {
		panic(err)
	}
	signer, err := ssh.NewSignerFromKey(priv)
	if err != nil {
		panic(err)
	}
	pub := signer.PublicKey()
	k := &Key{
		Name:   name,
		PEM:    pem.EncodeToMemory(block),
		Pub:    pub,
		KeyID:  ssh.FingerprintSHA256(pub),
		signer: signer,
	}
	k.SSLib = &signerverifier.SSLibKey{
		KeyID:   k.KeyID,
		KeyType: "ssh",
		Scheme:  pub.Type(),
		KeyVal:  signerverifier.KeyVal{Public: base64.StdEncoding.EncodeToString(pub.Marshal())},
	}
	cache[name] = k
	return k
}

// TUFKey returns the key as a tufv02.Key principal (ID == key ID).
func (k *Key) TUFKey() *tufv02.Key {
	return tufv02.NewKeyFromSSLibKey(k.SSLib)
}

// Person builds a tufv02.Person principal with the given keys.
func Person(id string, identities map[string]string, ks ...*Key) *tufv02.Person {
	p := &tufv02.Person{PersonID: id, PublicKeys: map[string]*tufv02.Key{}, AssociatedIdentities: identities}
	for _, k := range ks {
		p.PublicKeys[k.KeyID] = k.TUFKey()
	}
	return p
}

var _ tuf.Principal = (*tufv02.Person)(nil)

// Signer is an in-process dsse.Signer producing the same armored sshsig
// (namespace "git", sha512) that gittuf's ssh signer obtains from ssh-keygen.
type Signer struct{ K *Key }

func (s Signer) Sign(_ context.Context, data []byte) ([]byte, error) {
	sig, err := memstore.SignSSH(data, s.K.PEM)
	if err != nil {
		return nil, err
	}
	return []byte(sig), nil
}

func (s Signer) KeyID() (string, error) { return s.K.KeyID, nil }

var _ sslibdsse.Signer = Signer{}

// SignEnvelope appends k's signature over the envelope's PAE.
func SignEnvelope(env *sslibdsse.Envelope, k *Key) error {
	payload, err := env.DecodeB64Payload()
	if err != nil {
		return err
	}
	sig, err := memstore.SignSSH(sslibdsse.PAE(env.PayloadType, payload), k.PEM)
	if err != nil {
		return err
	}
	env.Signatures = append(env.Signatures, sslibdsse.Signature{KeyID: k.KeyID, Sig: base64.StdEncoding.EncodeToString([]byte(sig))})
	return nil
}

// LiftedSignature returns a signature by k that is valid over OTHER bytes.
func LiftedSignature(k *Key) sslibdsse.Signature {
	sig, err := memstore.SignSSH([]byte("DSSEv1 5 other 5 bytes"), k.PEM)
	if err != nil {
		panic(err)
	}
	return sslibdsse.Signature{KeyID: k.KeyID, Sig: base64.StdEncoding.EncodeToString([]byte(sig))}
}

func (k *Key) String() string { return fmt.Sprintf("%s(%s)", k.Name, k.KeyID) }
