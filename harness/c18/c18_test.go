// Package c18 decides property C18 ("propagation copies exactly the upstream
// subtree and is idempotent") by bounded-exhaustive enumeration of upstream /
// downstream trees x directives x upstream log states x repetitions on pairs
// of REAL git repositories (lane G).
//
// The code under test is internal/propagation.PropagateChangesFromUpstreamRepository
// (what gittuf.Repository.PropagateChangesFromUpstreamRepositories calls per
// upstream) with gitinterface.CreateSubtreeFromUpstreamRepository below it.
// Trees and commits are written with hash-object / mktree -z / raw commit
// objects; every observation (trees, refs, log entries) is read with
// NUL-delimited plumbing and the harness's own RSL text parser, never with
// gitinterface's or pkg/rsl's parsers.
package c18

import (
	"bytes"
	"encoding/json"
	"fmt"
	"os"
	"sort"
	"strings"
	"testing"
	"time"

	"github.com/gittuf/gittuf/internal/propagation"
	"github.com/gittuf/gittuf/internal/tuf"
	tufv02 "github.com/gittuf/gittuf/internal/tuf/v02"
	"github.com/gittuf/gittuf/pkg/githash"
	"github.com/gittuf/gittuf/verif/evid"
	"github.com/gittuf/gittuf/verif/gitback"
	"github.com/gittuf/gittuf/verif/world"
)

const (
	upRef   = "refs/heads/main"
	downRef = "refs/heads/main"
	rslRef  = "refs/gittuf/reference-state-log"
)

// ---------------------------------------------------------------------------
// case

type Directive struct {
	Up   string `json:"up"`
	Down string `json:"down"`
}

type Case struct {
	UpMenu   int         `json:"up_menu"`
	DownMenu int         `json:"down_menu"`
	Up       []string    `json:"up"`   // upstream tree paths
	Down     []string    `json:"down"` // downstream tree paths
	Dirs     []Directive `json:"directives"`
	Log      string      `json:"log"` // plain | none | skipped-latest | updated | updated-outside-first | skipped-between | empty-rsl
	Reps     int         `json:"reps"`
}

func (c Case) String() string {
	b, _ := json.Marshal(c)
	return string(b)
}

var upMenus = [][]string{
	{"f", "d/f", "d/e/f"},
	{"d/f", "d/e/f", "a b", "é"},
	{"d/f", "d/e/f", "foo", "foobar/x"},
	{"d/f", "d/e/f", "foo/x", "f"},
	{"f"},
	{"a b", "é", "foo/x", "foobar/x"},
	{"d/e/f"},
	{"d/f", "d/e/f", "a b", "foobar/x"},
	{"f", "d/f", "d/e/f"}, // thorough only: with executable files, see upExec
}

// executable files upstream (thorough only; the tree builder writes 100644, so
// tree ids can never match although paths and blobs do)
var upExec = map[int]map[string]bool{8: {"f": true, "d/f": true}}

// downstream menus; "<stale>" entries go beyond the stated path alphabet to
// put old content under vendor/up as well (marked in the class).
var downMenus = [][]string{
	{"f"},
	{"f", "foo/x", "foobar/x"},
	{"f", "a b", "é"},
	{"f", "foo"},
	{"d/f", "d/e/f", "foobar/x"},
	{"a b", "foo/x", "é", "foobar/x"},
	{"foo/x"},
	{"f", "foo/x", "vendor/up/stale", "vendor/upx/keep"},
}

// executable files (mode is observed, not judged)
var downExec = map[int]map[string]bool{4: {"foobar/x": true}}

var singleDirs = func() [][]Directive {
	r := [][]Directive{}
	for _, up := range []string{"", "d", "d/e"} {
		for _, down := range []string{"foo", "foo/", "vendor/up"} {
			r = append(r, []Directive{{up, down}})
		}
	}
	return r
}()

var pairDirs = [][]Directive{
	{{"", "foo"}, {"d", "vendor/up"}},
	{{"d", "foo/"}, {"d/e", "vendor/up"}},
	{{"", "foo"}, {"", "foo/"}},
	{{"d/e", "vendor/up"}, {"", "foo"}},
	{{"", "vendor/up"}, {"d", "foo"}},
}

func hasDir(paths []string, dir string) bool {
	for _, p := range paths {
		if strings.HasPrefix(p, dir+"/") {
			return true
		}
	}
	return false
}

func (c Case) valid() bool {
	if c.Log == "updated-outside-first" {
		// the update between repetitions leaves the first directive's
		// upstream subtree untouched: only meaningful when that directive
		// has an upstream path, another one follows, and the menu has a
		// path outside it
		if len(c.Dirs) < 2 || c.Dirs[0].Up == "" {
			return false
		}
		outside := false
		for _, p := range c.Up {
			if !strings.HasPrefix(p, c.Dirs[0].Up+"/") {
				outside = true
			}
		}
		if !outside {
			return false
		}
	}
	for _, d := range c.Dirs {
		if d.Up != "" && !hasDir(c.Up, d.Up) {
			return false
		}
	}
	return true
}

func oddName(p string) bool {
	for i := 0; i < len(p); i++ {
		if p[i] == ' ' || p[i] >= 0x80 || p[i] < 0x20 || p[i] == '"' || p[i] == '\\' {
			return true
		}
	}
	return false
}

// ---------------------------------------------------------------------------
// ground-truth plumbing

type harnessErr struct{ err error }

type gt struct {
	r     *gitback.Repo
	cache map[string]string
}

func newGT(r *gitback.Repo) gt { return gt{r: r, cache: map[string]string{}} }

func (g gt) git(stdin []byte, args ...string) []byte {
	out, err := g.r.Git(stdin, args...)
	if err != nil {
		panic(harnessErr{err})
	}
	return out
}

func (g gt) tryGit(args ...string) (string, bool) {
	out, err := g.r.Git(nil, args...)
	return strings.TrimSpace(string(out)), err == nil
}

func (g gt) blob(content string) string {
	if id, ok := g.cache["b:"+content]; ok {
		return id
	}
	id := strings.TrimSpace(string(g.git([]byte(content), "hash-object", "-w", "--stdin")))
	g.cache["b:"+content] = id
	return id
}

type file struct {
	Content string
	Exec    bool
}

func (g gt) tree(files map[string]file) string {
	direct := map[string]file{}
	subs := map[string]map[string]file{}
	for p, f := range files {
		if i := strings.IndexByte(p, '/'); i >= 0 {
			if subs[p[:i]] == nil {
				subs[p[:i]] = map[string]file{}
			}
			subs[p[:i]][p[i+1:]] = f
		} else {
			direct[p] = f
		}
	}
	var buf bytes.Buffer
	for name, f := range direct {
		mode := "100644"
		if f.Exec {
			mode = "100755"
		}
		fmt.Fprintf(&buf, "%s blob %s\t%s\x00", mode, g.blob(f.Content), name)
	}
	for name, m := range subs {
		fmt.Fprintf(&buf, "040000 tree %s\t%s\x00", g.tree(m), name)
	}
	return strings.TrimSpace(string(g.git(buf.Bytes(), "mktree", "-z")))
}

func mustHash(s string) githash.Hash {
	h, err := githash.NewHash(s)
	if err != nil {
		panic(harnessErr{err})
	}
	return h
}

func (g gt) commit(tree string, parents []string, msg string) string {
	ps := []githash.Hash{}
	for _, p := range parents {
		ps = append(ps, mustHash(p))
	}
	id, err := g.r.PutCommit(mustHash(tree), ps, msg+"\n", nil)
	if err != nil {
		panic(harnessErr{err})
	}
	return id.String()
}

type ent struct {
	ID   string
	Mode string
}

// flatten lists (path bytes -> blob id, mode) of a commit or tree, NUL-delimited.
func (g gt) flatten(treeish string) map[string]ent {
	out := g.git(nil, "ls-tree", "-r", "-z", treeish)
	res := map[string]ent{}
	for _, rec := range bytes.Split(out, []byte{0}) {
		if len(rec) == 0 {
			continue
		}
		tab := bytes.IndexByte(rec, '\t')
		meta := strings.Fields(string(rec[:tab]))
		name := string(rec[tab+1:])
		if _, dup := res[name]; dup {
			// a tree with two entries of one name: keep both visible
			name = name + "\x00<duplicate>"
		}
		res[name] = ent{ID: meta[2], Mode: meta[0]}
	}
	return res
}

func (g gt) ref(name string) string {
	s, ok := g.tryGit("rev-parse", "--verify", "-q", name)
	if !ok {
		return ""
	}
	return s
}

// revList lists commits of from..to oldest first, first parents only.
func (g gt) revList(from, to string) []string {
	if to == "" {
		return nil
	}
	rng := to
	if from != "" {
		rng = from + ".." + to
	}
	out := strings.TrimSpace(string(g.git(nil, "rev-list", "--reverse", "--first-parent", rng)))
	if out == "" {
		return nil
	}
	return strings.Split(out, "\n")
}

type rawCommit struct {
	Tree    string
	Parents []string
	Message string
}

func (g gt) rawCommit(id string) rawCommit {
	out := string(g.git(nil, "cat-file", "commit", id))
	i := strings.Index(out, "\n\n")
	rc := rawCommit{Message: strings.TrimSpace(out[i+2:])}
	for _, l := range strings.Split(out[:i], "\n") {
		if strings.HasPrefix(l, "tree ") {
			rc.Tree = l[5:]
		}
		if strings.HasPrefix(l, "parent ") {
			rc.Parents = append(rc.Parents, l[7:])
		}
	}
	return rc
}

// ---------------------------------------------------------------------------
// upstream bookkeeping (the harness's own record of what it recorded)

type upEntry struct {
	ID      string
	Commit  string
	Skipped bool
	ForRef  string
}

type upstream struct {
	g       gt
	entries []*upEntry
	paths   []string
	exec    map[string]bool
	tip     string
	version int
	content map[string]string
}

func (u *upstream) newVersion() string { return u.newVersionKeeping("\x00") }

// newVersionKeeping makes a new upstream commit in which every path changes
// except those under keep/ (which keep their previous content).
func (u *upstream) newVersionKeeping(keep string) string {
	u.version++
	if u.content == nil {
		u.content = map[string]string{}
	}
	files := map[string]file{}
	for _, p := range u.paths {
		if _, had := u.content[p]; !had || !strings.HasPrefix(p, keep+"/") {
			u.content[p] = fmt.Sprintf("up%d:%s", u.version, p)
		}
		files[p] = file{Content: u.content[p], Exec: u.exec[p]}
	}
	ps := []string{}
	if u.tip != "" {
		ps = append(ps, u.tip)
	}
	u.tip = u.g.commit(u.g.tree(files), ps, fmt.Sprintf("upstream v%d", u.version))
	if err := u.g.r.SetReference(upRef, mustHash(u.tip)); err != nil {
		panic(harnessErr{err})
	}
	return u.tip
}

func (u *upstream) record(ref, commit string) *upEntry {
	if err := world.Record(u.g.r, ref, mustHash(commit), nil); err != nil {
		panic(harnessErr{err})
	}
	e := &upEntry{ID: u.g.ref(rslRef), Commit: commit, ForRef: ref}
	u.entries = append(u.entries, e)
	return e
}

func (u *upstream) skip(e *upEntry) {
	if err := world.Annotate(u.g.r, []githash.Hash{mustHash(e.ID)}, true, "revoked", nil); err != nil {
		panic(harnessErr{err})
	}
	e.Skipped = true
}

// latestUnskipped is the oracle's U: latest unskipped recorded entry for the upstream ref.
func (u *upstream) latestUnskipped() *upEntry {
	for i := len(u.entries) - 1; i >= 0; i-- {
		if e := u.entries[i]; e.ForRef == upRef && !e.Skipped {
			return e
		}
	}
	return nil
}

// ---------------------------------------------------------------------------
// the check

type runner struct {
	t       *testing.T
	col     *evid.Collector
	verbose bool
}

func idsOf(m map[string]ent) map[string]string {
	r := map[string]string{}
	for p, e := range m {
		r[p] = e.ID
	}
	return r
}

func sameMap(a, b map[string]string) bool {
	if len(a) != len(b) {
		return false
	}
	for k, v := range a {
		if w, ok := b[k]; !ok || w != v {
			return false
		}
	}
	return true
}

func sortedKeys(m map[string]string) []string {
	r := []string{}
	for k := range m {
		r = append(r, k)
	}
	sort.Strings(r)
	return r
}

func under(m map[string]string, dir string) map[string]string {
	r := map[string]string{}
	for p, id := range m {
		if strings.HasPrefix(p, dir+"/") {
			r[p[len(dir)+1:]] = id
		}
	}
	return r
}

// invalidTree reports a flattened tree in which one name is a file and a directory.
func invalidTree(m map[string]string) bool {
	for p := range m {
		for q := range m {
			if strings.HasPrefix(q, p+"/") || strings.HasSuffix(q, "\x00<duplicate>") {
				return true
			}
		}
	}
	return false
}

func nameClass(p, dp string) string {
	switch {
	case oddName(p):
		return "odd-name"
	case strings.HasPrefix(p, dp) && !strings.HasPrefix(p, dp+"/") && p != dp:
		return "prefix-sibling"
	default:
		return "plain-name"
	}
}

func (x *runner) violation(c Case, sig, what string) {
	x.col.Violation(sig, what, c)
	if x.verbose {
		x.t.Logf("VIOLATION %s: %s", sig, what)
	}
}

func (x *runner) run(c Case) {
	col := x.col
	upR := gitback.New(x.t, true)
	defer os.RemoveAll(upR.Dir)
	downR := gitback.New(x.t, true)
	defer os.RemoveAll(downR.Dir)
	ug, dg := newGT(upR), newGT(downR)
	upLoc := upR.Dir

	// downstream: initial commit, recorded
	dfiles := map[string]file{}
	for _, p := range c.Down {
		dfiles[p] = file{Content: "down:" + p, Exec: downExec[c.DownMenu][p]}
	}
	dtip := dg.commit(dg.tree(dfiles), nil, "downstream initial")
	if err := downR.SetReference(downRef, mustHash(dtip)); err != nil {
		panic(harnessErr{err})
	}
	if err := world.Record(downR, downRef, mustHash(dtip), nil); err != nil {
		panic(harnessErr{err})
	}

	// upstream history according to the log state
	u := &upstream{g: ug, paths: c.Up, exec: upExec[c.UpMenu]}
	var e2 *upEntry
	switch c.Log {
	case "plain", "updated", "updated-outside-first":
		u.record(upRef, u.newVersion())
	case "none":
		v1 := u.newVersion()
		u.record("refs/heads/other", v1)
	case "empty-rsl":
		u.newVersion()
	case "skipped-latest":
		u.record(upRef, u.newVersion())
		e2 = u.record(upRef, u.newVersion())
		u.skip(e2)
	case "skipped-between":
		u.record(upRef, u.newVersion())
		e2 = u.record(upRef, u.newVersion())
	default:
		panic("bad log state")
	}

	details := []tuf.PropagationDirective{}
	for i, d := range c.Dirs {
		details = append(details, tufv02.NewPropagationDirective(fmt.Sprintf("dir%d", i), upLoc, upRef, d.Up, downRef, d.Down))
	}

	dirClass := func() string {
		s := []string{}
		for _, d := range c.Dirs {
			s = append(s, fmt.Sprintf("%q->%q", d.Up, d.Down))
		}
		return strings.Join(s, ",")
	}()

	upFlat := map[string]map[string]string{}
	for rep := 1; rep <= c.Reps; rep++ {
		// between repetitions: upstream changes for some log states
		if rep == 2 {
			switch c.Log {
			case "updated":
				u.record(upRef, u.newVersion())
			case "updated-outside-first":
				// the first directive's subtree is unchanged (it is already
				// up to date), the later directives have pending changes
				u.record(upRef, u.newVersionKeeping(c.Dirs[0].Up))
			case "skipped-between":
				u.skip(e2)
			}
		}

		refsBefore := downR.Refs()
		tipBefore := refsBefore[downRef]
		rslBefore := dg.revList("", refsBefore[rslRef])
		modesBefore := dg.flatten(tipBefore)
		treeBefore := idsOf(modesBefore)

		U := u.latestUnskipped()

		var err error
		var pn any
		func() {
			defer func() {
				if p := recover(); p != nil {
					pn = p
				}
			}()
			err = propagation.PropagateChangesFromUpstreamRepository(downR.Repository, upR.Repository, details, false)
		}()
		col.Inc("evaluations")
		col.Inc("propagate_calls")

		refsAfter := downR.Refs()
		tipAfter := refsAfter[downRef]
		rslAfter := rslBefore
		if refsAfter[rslRef] != refsBefore[rslRef] {
			rslAfter = dg.revList("", refsAfter[rslRef])
		}
		newCommits := dg.revList(tipBefore, tipAfter)
		if tipAfter != tipBefore && len(newCommits) == 0 {
			x.violation(c, "C18:downstream-ref-rewound", fmt.Sprintf("rep %d: downstream ref moved from %s to %s which is no descendant", rep, tipBefore, tipAfter))
		}
		// the log must extend the previous log
		extends := len(rslAfter) >= len(rslBefore)
		for i := range rslBefore {
			if !extends || rslAfter[i] != rslBefore[i] {
				extends = false
				break
			}
		}
		if !extends {
			x.violation(c, "C18:downstream-log-rewritten", fmt.Sprintf("rep %d: downstream log no longer extends the previous log", rep))
			return
		}
		newEntries := rslAfter[len(rslBefore):]

		// Judge directive by directive. The expectation for a directive is
		// computed from the ACTUAL tree left by the previous one, so that one
		// defect is not reported again as a consequence.
		subtreeFor := func(d Directive) map[string]string {
			if upFlat[U.Commit] == nil {
				upFlat[U.Commit] = idsOf(ug.flatten(U.Commit))
			}
			S := upFlat[U.Commit]
			if d.Up != "" {
				S = under(S, d.Up)
			}
			if len(S) == 0 {
				panic(harnessErr{fmt.Errorf("empty upstream subtree in %s", c)})
			}
			return S
		}
		dpOf := func(d Directive) string { return strings.TrimSuffix(d.Down, "/") }
		causeOf := func(d Directive) string {
			switch {
			case upExec[c.UpMenu] != nil:
				return "upstream-executable-file"
			case d.Up != "":
				return "upstream-path-set"
			}
			return "whole-tree"
		}
		flatCache := map[string]map[string]string{}
		flatOf := func(cid string) map[string]string {
			if flatCache[cid] == nil {
				flatCache[cid] = idsOf(dg.flatten(cid))
			}
			return flatCache[cid]
		}
		msgCache := map[string]rawCommit{}
		rawOf := func(cid string) rawCommit {
			if _, ok := msgCache[cid]; !ok {
				msgCache[cid] = dg.rawCommit(cid)
			}
			return msgCache[cid]
		}
		mentions := func(cid string, d Directive) bool {
			return strings.Contains(rawOf(cid).Message, "'"+dpOf(d)+"'")
		}

		outc := "ok"
		bad := func(o string) {
			if outc == "ok" {
				outc = o
			}
		}
		if pn != nil {
			bad("panic")
			x.violation(c, "C18:panic", fmt.Sprintf("rep %d: %v", rep, pn))
		}

		M := treeBefore
		j := 0
		needed := 0
		abort := false
		refused := ""
		for di, d := range c.Dirs {
			if U == nil {
				break
			}
			S := subtreeFor(d)
			dp := dpOf(d)
			_, blobAt := M[dp]
			need := !(sameMap(under(M, dp), S) && !blobAt)
			if !need {
				// downstream path already holds that content: no commit expected.
				// A commit with an unchanged tree that is not claimed by a later
				// directive is this directive's.
				if j < len(newCommits) && sameMap(flatOf(newCommits[j]), M) {
					later := false
					for _, d2 := range c.Dirs[di+1:] {
						if dpOf(d2) != dp && mentions(newCommits[j], d2) {
							later = true
						}
					}
					if mentions(newCommits[j], d) || !later {
						bad("not-idempotent")
						x.violation(c, "C18:not-idempotent:"+causeOf(d), fmt.Sprintf("rep %d, directive %q->%q: the downstream path already holds the upstream content of entry %s, yet a new commit %s (tree unchanged) and a log entry were created", rep, d.Up, d.Down, U.ID[:8], newCommits[j][:8]))
						j++
					}
				}
				continue
			}
			needed++
			if j >= len(newCommits) {
				if err != nil {
					// The statement is a postcondition of a propagation that took
					// place. A call that returns an error and leaves this
					// directive's ref and log untouched does not contradict it; it
					// is recorded as an observation (partial effects are caught by
					// the commit/entry pairing below).
					refused = failClass(c, dp, M, err)
					col.Inc("calls_refused_with_error")
					col.Note("propagation refused (%s): directive %q->%q, downstream tree %q: %s", refused, d.Up, d.Down, sortedKeys(M), firstLine(err.Error()))
					break // the function stops at the first error
				}
				bad("not-propagated")
				x.violation(c, "C18:not-propagated:"+causeOf(d), fmt.Sprintf("rep %d, directive %q->%q: downstream path does not hold the upstream content of entry %s (tree %q) but no commit was made", rep, d.Up, d.Down, U.ID[:8], sortedKeys(M)))
				continue
			}
			cid := newCommits[j]
			j++
			N := map[string]string{}
			for p, id := range M {
				if p == dp || strings.HasPrefix(p, dp+"/") {
					continue
				}
				N[p] = id
			}
			for p, id := range S {
				N[dp+"/"+p] = id
			}
			gotIDs := flatOf(cid)
			if !sameMap(gotIDs, N) {
				sigs := map[string]string{}
				note := func(sig, what string) {
					if _, ok := sigs[sig]; !ok {
						sigs[sig] = what
					}
				}
				for _, p := range sortedKeys(N) {
					if gotIDs[p] == N[p] {
						continue
					}
					if strings.HasPrefix(p, dp+"/") {
						note("C18:copied-subtree-differs:"+nameClass(p[len(dp)+1:], "\x00"), fmt.Sprintf("expected %q (upstream %q) under the downstream path is missing or has other content", p, p[len(dp)+1:]))
					} else {
						note("C18:unrelated-path-changed:"+nameClass(p, dp), fmt.Sprintf("path %q outside the downstream path %q is missing or has other content", p, dp))
					}
				}
				for _, p := range sortedKeys(gotIDs) {
					if _, ok := N[p]; ok {
						continue
					}
					base := strings.TrimSuffix(p, "\x00<duplicate>")
					switch {
					case base == dp:
						note("C18:downstream-path-not-replaced:blob-at-path", fmt.Sprintf("the previous tree had a file at the downstream path %q; it is still there next to the copied subtree", dp))
					case strings.HasPrefix(p, dp+"/"):
						if _, was := M[p]; was {
							note("C18:stale-content-kept", fmt.Sprintf("old content %q under the downstream path survived", p))
						} else {
							note("C18:copied-subtree-differs:unexpected-path", fmt.Sprintf("unexpected %q under the downstream path", p))
						}
					default:
						note("C18:unrelated-path-changed:unexpected-path", fmt.Sprintf("unexpected path %q outside the downstream path %q", p, dp))
					}
				}
				// an unexpected path next to a missing one in the same region is the
				// same mangled name: one signature
				for _, region := range []string{"C18:copied-subtree-differs:", "C18:unrelated-path-changed:"} {
					if _, unexpected := sigs[region+"unexpected-path"]; !unexpected {
						continue
					}
					for _, other := range sortedKeys(sigs) {
						if strings.HasPrefix(other, region) && other != region+"unexpected-path" {
							sigs[other] += "; " + sigs[region+"unexpected-path"]
							delete(sigs, region+"unexpected-path")
							break
						}
					}
				}
				for _, sig := range sortedKeys(sigs) {
					bad(strings.TrimPrefix(sig, "C18:"))
					x.violation(c, sig, fmt.Sprintf("rep %d, directive %q->%q: %s; tree before %q, after %q", rep, d.Up, d.Down, sigs[sig], sortedKeys(M), sortedKeys(gotIDs)))
				}
			}
			M = gotIDs
			if invalidTree(M) {
				// a tree holding a file and a directory of one name is no git tree
				// the statement quantifies over; nothing after it is judged
				abort = true
				break
			}
		}
		if abort {
			col.Inc("calls_violating")
			col.Class("dirs=[%s] log=%s rep=%d up=%d down=%d -> %s, left an invalid tree (case abandoned)", dirClass, c.Log, rep, c.UpMenu, c.DownMenu, outc)
			return
		}
		if U == nil && len(newCommits) > 0 {
			bad("propagated-without-unskipped-entry")
			x.violation(c, "C18:propagated-without-unskipped-entry:"+c.Log, fmt.Sprintf("rep %d: upstream ref has no unskipped entry (%s) but %d commit(s) were made downstream", rep, c.Log, len(newCommits)))
		} else if j < len(newCommits) {
			bad("extra-commits")
			x.violation(c, "C18:extra-commits", fmt.Sprintf("rep %d, directives %s: %d commits made that no directive accounts for", rep, dirClass, len(newCommits)-j))
		}
		// history shape of the commits made
		prev := tipBefore
		for _, cid := range newCommits {
			rc := rawOf(cid)
			if len(rc.Parents) != 1 || rc.Parents[0] != prev {
				bad("history-shape")
				x.violation(c, "C18:propagation-commit-parent", fmt.Sprintf("rep %d: propagation commit %s has parents %v, expected [%s]", rep, cid[:8], rc.Parents, prev))
			}
			prev = cid
		}

		stateClass := "first"
		switch {
		case U == nil:
			stateClass = "no-unskipped-entry"
		case needed == 0:
			stateClass = "already-propagated"
		case rep > 1:
			stateClass = "upstream-changed"
		}
		if x.verbose {
			x.t.Logf("rep %d: err=%v panic=%v directives needing propagation=%d commits made=%d entries=%d; before=%q after=%q", rep, err, pn, needed, len(newCommits), len(newEntries), sortedKeys(treeBefore), sortedKeys(flatOf(tipAfter)))
			x.t.Logf("       tip %s -> %s", tipBefore, tipAfter)
		}

		// mode observation (not judged)
		if len(newCommits) > 0 && downExec[c.DownMenu] != nil {
			after := dg.flatten(tipAfter)
			for p, e := range modesBefore {
				if a, ok := after[p]; ok && a.ID == e.ID && a.Mode != e.Mode {
					col.Inc("observed_mode_changes")
					col.Class("observation: unrelated file mode %s -> %s after propagation (not judged)", e.Mode, a.Mode)
				}
			}
		}

		// log entries: one propagation entry per commit made, naming the upstream location and entry
		if len(newEntries) != len(newCommits) {
			bad("entries!=commits")
			x.violation(c, "C18:entries-and-commits-differ", fmt.Sprintf("rep %d: %d commit(s) made but %d log entr(ies) added", rep, len(newCommits), len(newEntries)))
		}
		for i, eid := range newEntries {
			pt := world.ParseText(dg.rawCommit(eid).Message)
			if pt.Kind != "propagation" || !pt.WellForm {
				bad("entry-kind")
				x.violation(c, "C18:propagation-entry-malformed", fmt.Sprintf("rep %d: new log entry %s is %q, not a well-formed propagation entry", rep, eid[:8], pt.Kind))
				continue
			}
			if i < len(newCommits) && (pt.Ref != downRef || pt.Target != newCommits[i]) {
				bad("entry-target")
				x.violation(c, "C18:propagation-entry-wrong-target", fmt.Sprintf("rep %d: entry names %s %s, commit made is %s", rep, pt.Ref, pt.Target, newCommits[i]))
			}
			if pt.Upstream != upLoc {
				bad("entry-location")
				x.violation(c, "C18:propagation-entry-wrong-upstream-location", fmt.Sprintf("rep %d: entry names upstream %q, directive says %q", rep, pt.Upstream, upLoc))
			}
			if U != nil && pt.UpEntry != U.ID {
				bad("entry-upstream-id")
				x.violation(c, "C18:propagation-entry-wrong-upstream-entry", fmt.Sprintf("rep %d (%s): entry names upstream entry %s, the latest unskipped upstream entry is %s", rep, c.Log, pt.UpEntry, U.ID))
			}
		}
		// other refs
		for name, id := range refsBefore {
			if name == downRef || name == rslRef {
				continue
			}
			if refsAfter[name] != id {
				bad("other-ref-changed")
				x.violation(c, "C18:other-ref-changed", fmt.Sprintf("rep %d: ref %s changed", rep, name))
			}
		}
		if needed == 0 && len(newCommits) == 0 && len(newEntries) == 0 {
			for name, id := range refsAfter {
				if refsBefore[name] != id {
					bad("ref-changed-on-noop")
					x.violation(c, "C18:ref-changed-on-noop", fmt.Sprintf("rep %d: ref %s changed although nothing was to propagate", rep, name))
				}
			}
		}

		// counters / classes
		if outc == "ok" && refused != "" {
			outc = "refused:" + refused
		}
		switch {
		case outc != "ok" && refused != "" && strings.HasPrefix(outc, "refused:"):
			// counted above
		case outc != "ok":
			col.Inc("calls_violating")
		case needed > 0:
			col.Inc("calls_propagated_exact")
		case U == nil:
			col.Inc("calls_noop_no_entry")
		default:
			col.Inc("calls_noop_idempotent")
		}
		if err != nil {
			col.Inc("calls_returning_error")
		}
		errc := "nil"
		if err != nil {
			errc = "error"
		}
		col.Class("dirs=[%s] log=%s rep=%d state=%s up=%d down=%d err=%s -> %s", dirClass, c.Log, rep, stateClass, c.UpMenu, c.DownMenu, errc, outc)
	}
}

// failClass names the cause of a failed propagation as far as it is observable
// in the error and the input shape.
func failClass(c Case, dp string, before map[string]string, err error) string {
	if strings.Contains(err.Error(), "invalid quoting") {
		return "invalid-quoting"
	}
	if _, blobAt := before[dp]; blobAt {
		return "blob-at-downstream-path"
	}
	for p := range before {
		if oddName(p) {
			return "odd-name-downstream"
		}
	}
	for _, p := range c.Up {
		if oddName(p) {
			return "odd-name-upstream"
		}
	}
	return "other"
}

func firstLine(s string) string {
	if i := strings.IndexByte(s, '\n'); i >= 0 {
		return s[:i]
	}
	return s
}

// ---------------------------------------------------------------------------
// enumeration

func mk(ui, di int, dirs []Directive, log string, reps int) Case {
	return Case{UpMenu: ui, DownMenu: di, Up: upMenus[ui], Down: downMenus[di], Dirs: dirs, Log: log, Reps: reps}
}

func cases(thorough bool) (all []Case, skipped int) {
	add := func(c Case) {
		if !c.valid() {
			skipped++
			return
		}
		all = append(all, c)
	}
	if thorough {
		dirs := append(append([][]Directive{}, singleDirs...), pairDirs...)
		for _, ds := range dirs {
			for _, log := range []string{"plain", "none", "skipped-latest", "updated", "updated-outside-first", "skipped-between", "empty-rsl"} {
				for ui := range upMenus {
					for di := range downMenus {
						if (log == "none" || log == "empty-rsl") && (ui > 1 || di > 1) {
							continue // nothing is read from the trees in these states
						}
						add(mk(ui, di, ds, log, 3))
					}
				}
			}
		}
		return
	}
	dirs := append(append([][]Directive{}, singleDirs...), pairDirs[0], pairDirs[1])
	logs := []string{"plain", "none", "skipped-latest", "updated"}
	seen := map[string]bool{}
	put := func(c Case) {
		k := c.String()
		if !seen[k] {
			seen[k] = true
			add(c)
		}
	}
	// slice 1: every (directive set, log state), tree menus rotating, 3 repetitions
	for k, ds := range dirs {
		for l, log := range logs {
			put(mk((k+l)%4, (k+2*l+1)%4, ds, log, 3))
		}
	}
	// slice 1b: an update between repetitions that leaves the FIRST directive
	// up to date while a later directive has pending changes
	put(mk(0, 0, pairDirs[3], "updated-outside-first", 3))
	put(mk(3, 1, pairDirs[3], "updated-outside-first", 3))
	put(mk(2, 2, pairDirs[1], "updated-outside-first", 3))
	put(mk(1, 3, pairDirs[1], "updated-outside-first", 2))
	// slice 2: every (directive set, upstream menu 0..3), one log entry, downstream menu rotating
	for k, ds := range dirs {
		for ui := 0; ui < 4; ui++ {
			put(mk(ui, (k+ui)%4, ds, "plain", 2))
		}
	}
	// slice 3: every (directive set, downstream menu 0..5), one log entry, upstream menu rotating
	for k, ds := range dirs {
		for di := 0; di < 6; di++ {
			put(mk((k+di+1)%4, di, ds, "plain", 2))
		}
	}
	return
}

func TestC18(t *testing.T) {
	col := evid.New("C18")
	defer func() {
		if err := col.Write(); err != nil {
			t.Fatal(err)
		}
	}()
	x := &runner{t: t, col: col}
	defer func() {
		if p := recover(); p != nil {
			if he, ok := p.(harnessErr); ok {
				col.Fail("harness error: " + he.err.Error())
				return
			}
			panic(p)
		}
	}()

	col.Rule("cases: upstream tree menu (subsets of <=4 of {f, d/f, d/e/f, 'a b', 'é', foo, foo/x, foobar/x}) x downstream tree menu (likewise; with/without content under the downstream path, blob at the downstream path, prefix sibling foobar/, one menu with stale content under vendor/up) x directive set (upstream path {\"\", d, d/e} x downstream path {foo, foo/, vendor/up}, and pairs of directives for one upstream) x upstream log state (plain, no entry for the ref, latest entry skipped, entry updated between repetitions, entry updated between repetitions leaving the first directive already up to date while a later one has pending changes; thorough also entry skipped between repetitions, no log at all) x repetitions; the real propagation function is called once per repetition and EVERY call is judged (so 3 repetitions subsume 1 and 2). A class is (directive set, log state, repetition, before-state {first, already-propagated, upstream-changed, no-unskipped-entry}, tree menus, outcome).")
	col.Assume("the directive's upstream path exists as a directory in the upstream commits (cases where it does not are not enumerated)")
	col.Assume("file modes are not judged (the statement speaks of paths and content); only regular files are used, one executable file is included to observe the mode")
	col.Assume("the harness calls internal/propagation.PropagateChangesFromUpstreamRepository on two local repositories, i.e. after the clone/fetch step of gittuf.Repository.PropagateChangesFromUpstreamRepositories; fetching is not explored")
	col.Assume("the oracle's U (latest unskipped recorded entry of the upstream ref) comes from the harness's own bookkeeping of what it recorded and skipped upstream")

	if rp := evid.ReplayFile(); rp != "" {
		var c Case
		if err := evid.LoadReplay(rp, &c); err != nil {
			t.Fatal(err)
		}
		x.verbose = true
		t.Logf("replaying %s", c)
		x.run(c)
		t.Logf("replay: %d violation(s)", col.NumViolations())
		return
	}

	cs, skipped := cases(evid.Thorough())
	col.Bound("cases", len(cs))
	col.Bound("cases_not_enumerated_upstream_path_absent", skipped)
	col.Sample(cs[0])
	col.Sample(cs[len(cs)/2])
	for k, c := range cs {
		if !evid.Mine(k) {
			continue
		}
		if col.Expired() {
			return
		}
		t0 := time.Now()
		x.run(c)
		col.Add("ms_total", time.Since(t0).Milliseconds())
		col.Inc("cases_done")
	}
}
