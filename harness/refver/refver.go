// Package refver is the reference verifier: a small, boring statement of
// gittuf's verification rules over an ABSTRACT history (no bytes, no crypto),
// written from the property statements (DESIGN.md §3). It is the oracle of
// C01/C02/C07/C08/C09/C11/C19 and shares no code with internal/policy.
package refver

import (
	"sort"
	"strings"
)

// ---- abstract policy ----

type Rule struct {
	Name        string
	Patterns    []string
	Principals  []string // principal ids
	Threshold   int
	Terminating bool
}

type GlobalRule struct {
	Name      string
	Kind      string // "threshold" | "block-force-pushes"
	Patterns  []string
	Threshold int
}

type App struct {
	Name      string
	Keys      []string // key ids of the app
	Trusted   bool
	Threshold int
}

type Policy struct {
	Name string
	// Files maps rule-file name ("targets" is the primary one) to its rules
	// in declared order, WITHOUT the trailing allow rule.
	Files map[string][]Rule
	// Keys maps principal id -> key ids it owns.
	Keys map[string][]string
	// Identities maps principal id -> app name -> identity.
	Identities map[string]map[string]string
	Global     []GlobalRule
	Apps       []App
	// Valid says whether this policy entry satisfies C02's conditions with
	// respect to its predecessor (root signed by the predecessor's root
	// threshold, rule files properly signed, nothing dangling, no rollback).
	Valid bool
	// RootValid: the successor conditions alone (root signed by the
	// predecessor's root threshold, versions never decrease, rule files never
	// disappear). SelfValid: the conditions on the state by itself (own root
	// and rule-file signatures, nothing unreachable).
	RootValid bool
	SelfValid bool
	// HasFileRules reports whether any rule pattern uses the file: scheme.
	HasFileRules bool
}

// Match implements the pattern language used by the scenarios: fnmatch with
// no flags restricted to literals and '*' (which also matches '/').
func Match(pattern, s string) bool {
	if pattern == "" {
		return s == ""
	}
	if pattern[0] == '*' {
		for i := 0; i <= len(s); i++ {
			if Match(pattern[1:], s[i:]) {
				return true
			}
		}
		return false
	}
	if s == "" || pattern[0] != s[0] {
		return false
	}
	return Match(pattern[1:], s[1:])
}

func (r Rule) Matches(path string) bool {
	for _, p := range r.Patterns {
		if Match(p, path) {
			return true
		}
	}
	return false
}

// Consulted returns the rules reached by the documented pre-order walk for
// path: rules of a file in declared order; a delegated file is entered only
// through a matching rule and only once; a matching terminating rule that
// opens its delegated file cuts off the later rules of its own file.
func (p *Policy) Consulted(path string) []Rule {
	seen := map[string]bool{"targets": true}
	var walk func(file string) []Rule
	walk = func(file string) []Rule {
		out := []Rule{}
		for _, r := range p.Files[file] {
			if !r.Matches(path) {
				continue
			}
			out = append(out, r)
			if _, has := p.Files[r.Name]; has && !seen[r.Name] {
				seen[r.Name] = true
				out = append(out, walk(r.Name)...)
				if r.Terminating {
					break
				}
			}
		}
		return out
	}
	if _, ok := p.Files["targets"]; !ok {
		return nil
	}
	return walk("targets")
}

// ---- abstract history ----

type Kind int

const (
	Push Kind = iota
	PolicyEntry
	AttestEntry
	Annotation
	Propagation
	Staging
)

// Auth is one reference authorization stored in the attestation state.
type Auth struct {
	StoredRef, StoredFrom, StoredTo string   // the path it is filed under
	Ref, From, To                   string   // what the signed statement names
	Signers                         []string // key ids with a valid signature
}

// Approval is one code-review approval blob.
type Approval struct {
	StoredApp, StoredRef, StoredFrom, StoredTo string
	Ref, From, To                              string
	Approvers, Dismissed                       []string
	Signers                                    []string // key ids that validly signed the blob
}

type AttState struct {
	Auths     []Auth
	Approvals []Approval
}

type Entry struct {
	Kind   Kind
	Ref    string
	Commit string // abstract commit name (push / propagation target)
	Signer string // key id that signed the RSL entry, "" if unsigned
	Policy *Policy
	Att    *AttState // attestation state recorded by an AttestEntry
	Names  []int     // annotation: indices of named entries
	Skip   bool
	IsTag  bool
}

// Objects answers questions about the commit graph.
type Objects interface {
	Tree(commit string) string       // tree id of a commit
	ApprovalTo(commit string) string // "to" id an approval must name (tree, or tag target)
	Descends(commit, ancestor string) bool
	CommitSigner(commit string) string // key id that signed the commit object ("" unsigned)
	TagSigner(tag string) string       // key id that signed the tag object ("" unsigned)
	NewCommits(commit, since string) []string
	ChangedPaths(commit string) []string
	ID(commit string) string
}

type History struct {
	Entries []Entry
	Obj     Objects
	// PropagationStrict: judge propagation entries like pushes (the property
	// as written). When false they are ignored as the implementation does.
	PropagationStrict bool
}

func (h *History) Skipped(i int) bool {
	if h.Entries[i].Kind != Push {
		return false
	}
	for j := i + 1; j < len(h.Entries); j++ {
		a := h.Entries[j]
		if a.Kind == Annotation && a.Skip {
			for _, n := range a.Names {
				if n == i {
					return true
				}
			}
		}
	}
	return false
}

func (h *History) isUpdater(i int) bool {
	k := h.Entries[i].Kind
	return k == Push || k == Propagation
}

// prevForRef returns the index of the latest updater entry for ref strictly
// before i (-1 if none).
func (h *History) prevForRef(ref string, i int, unskippedOnly, pushOnly bool) int {
	for j := i - 1; j >= 0; j-- {
		e := h.Entries[j]
		if e.Ref != ref {
			continue
		}
		if e.Kind == Push || (e.Kind == Propagation && !pushOnly) {
			if unskippedOnly && h.Skipped(j) {
				continue
			}
			return j
		}
	}
	return -1
}

func (h *History) policyBefore(i int) *Policy {
	for j := i - 1; j >= 0; j-- {
		if h.Entries[j].Kind == PolicyEntry {
			return h.Entries[j].Policy
		}
	}
	return nil
}

// PolicyInForceAt returns the policy state in force for entry i.
func (h *History) PolicyInForceAt(i int) *Policy { return h.policyBefore(i) }

// AttInForceAt returns the attestation state recorded strictly before entry i.
func (h *History) AttInForceAt(i int) *AttState { return h.attBefore(i) }

func (h *History) attBefore(i int) *AttState {
	for j := i - 1; j >= 0; j-- {
		if h.Entries[j].Kind == AttestEntry {
			return h.Entries[j].Att
		}
	}
	return nil
}

// ZeroID is the "from" of the first change to a reference.
const ZeroID = "0000000000000000000000000000000000000000"

// Verdict of the reference verifier.
type Verdict struct {
	// Recovered counts violations tolerated through revoke-and-repair.
	Recovered int
	OK        bool
	Reason    string // why rejected (class)
	At        int    // index of the deciding entry
}

func reject(reason string, at int) Verdict { return Verdict{OK: false, Reason: reason, At: at} }

// owners returns the principals of rule whose keys include key.
func owners(p *Policy, r Rule, key string) []string {
	out := []string{}
	if key == "" {
		return out
	}
	for _, pid := range r.Principals {
		for _, k := range p.Keys[pid] {
			if k == key {
				out = append(out, pid)
				break
			}
		}
	}
	sort.Strings(out)
	return out
}

// Credit computes how many distinct principals of rule r can be credited for
// the change (ref, from, to) recorded by an entry signed by entrySigner, under
// attestation state a. Principals that share no keys: exact count.
func Credit(p *Policy, r Rule, a *AttState, ref, from, to, entrySigner string, isTag bool) map[string]bool {
	credited := map[string]bool{}
	usedKeys := map[string]bool{}
	// the entry's own signature credits at most one principal
	if o := owners(p, r, entrySigner); len(o) > 0 {
		credited[o[0]] = true
		usedKeys[entrySigner] = true
	}
	if a == nil {
		return credited
	}
	for _, au := range a.Auths {
		// only the statement stored at the lookup path is read, and it must
		// name exactly this change
		if au.StoredRef != ref || au.StoredFrom != from || au.StoredTo != to {
			continue
		}
		if au.Ref != ref || au.From != from || au.To != to {
			continue
		}
		for _, k := range au.Signers {
			if usedKeys[k] {
				continue
			}
			for _, pid := range owners(p, r, k) {
				if !credited[pid] {
					credited[pid] = true
					usedKeys[k] = true
					break
				}
			}
		}
	}
	if isTag {
		return credited
	}
	for _, app := range p.Apps {
		if !app.Trusted {
			continue
		}
		for _, ap := range a.Approvals {
			if ap.StoredApp != app.Name || ap.StoredRef != ref || ap.StoredFrom != from || ap.StoredTo != to {
				continue
			}
			if ap.Ref != ref || ap.From != from || ap.To != to {
				continue
			}
			// signed by the trusted app's key(s)
			n := 0
			for _, k := range ap.Signers {
				for _, ak := range app.Keys {
					if k == ak {
						n++
					}
				}
			}
			if n < app.Threshold || app.Threshold < 1 {
				continue
			}
			// Only the approvers list counts. The dismissed list records
			// dismissals; gittuf's writer removes a dismissed approver from
			// the approvers list, and a later re-approval puts them back, so
			// membership in the approvers list is what "not dismissed" means.
			for _, who := range ap.Approvers {
				for _, pid := range r.Principals {
					if p.Identities[pid][app.Name] == who {
						credited[pid] = true
					}
				}
			}
		}
	}
	return credited
}

// Authorised decides one entry under policy p and attestation state a.
// relax: the mergeability relaxation is NOT modelled here (C19 is differential).
func (h *History) Authorised(i int, p *Policy, a *AttState) (bool, string) {
	e := h.Entries[i]
	path := "git:" + e.Ref
	rules := p.Consulted(path)
	from := ZeroID
	if j := h.prevForRef(e.Ref, i, false, false); j >= 0 {
		from = h.Obj.ID(h.Entries[j].Commit)
	}
	to := h.Obj.ApprovalTo(e.Commit)
	maxCredited := 0
	if len(rules) > 0 {
		ok := false
		for _, r := range rules {
			if r.Threshold < 1 || len(r.Principals) == 0 {
				continue
			}
			c := Credit(p, r, a, e.Ref, from, to, e.Signer, e.IsTag)
			if len(c) > maxCredited {
				maxCredited = len(c)
			}
			if len(c) >= r.Threshold {
				ok = true
				break
			}
		}
		if !ok {
			return false, "delegation-rules-unmet"
		}
	}
	if e.IsTag && len(rules) > 0 {
		// the tag object itself must be signed by a principal of a consulted rule
		signed := false
		for _, r := range rules {
			if len(owners(p, r, h.Obj.TagSigner(e.Commit))) > 0 {
				signed = true
			}
		}
		if !signed {
			return false, "tag-object-not-signed-by-a-rule-principal"
		}
	}
	// global rules
	for _, g := range p.Global {
		matches := false
		for _, pat := range g.Patterns {
			if Match(pat, path) {
				matches = true
			}
		}
		if !matches {
			continue
		}
		switch g.Kind {
		case "threshold":
			// distinct authenticated principals among ALL principals of the policy
			all := Rule{Threshold: g.Threshold}
			for pid := range p.Keys {
				all.Principals = append(all.Principals, pid)
			}
			sort.Strings(all.Principals)
			c := Credit(p, all, a, e.Ref, from, to, e.Signer, e.IsTag)
			if len(c) < g.Threshold {
				return false, "global-threshold-unmet"
			}
		case "block-force-pushes":
			j := h.prevForRef(e.Ref, i, true, false)
			if j >= 0 && !h.Obj.Descends(e.Commit, h.Entries[j].Commit) {
				return false, "global-force-push"
			}
		}
	}
	// file rules
	if p.HasFileRules && !e.IsTag {
		since := ""
		if j := h.prevForRef(e.Ref, i, false, false); j >= 0 {
			since = h.Entries[j].Commit
		}
		for _, c := range h.Obj.NewCommits(e.Commit, since) {
			for _, fp := range h.Obj.ChangedPaths(c) {
				frules := p.Consulted("file:" + fp)
				if len(frules) == 0 {
					continue
				}
				ok := false
				for _, r := range frules {
					if r.Threshold < 1 || len(r.Principals) == 0 {
						continue
					}
					cr := Credit(p, r, a, e.Ref, from, to, h.Obj.CommitSigner(c), false)
					if len(cr) >= r.Threshold {
						ok = true
						break
					}
				}
				if !ok {
					return false, "file-rules-unmet"
				}
			}
		}
	}
	return true, ""
}

// VerifyFrom walks the history in log order from entry index start, judging
// the entries for ref, exactly as §3 `full(R)` states. last is the index of
// the last entry to consider (inclusive).
func (h *History) VerifyFrom(ref string, start, last int) Verdict {
	var p *Policy
	var a *AttState
	pIdx := -1
	if h.Entries[start].Kind == PolicyEntry {
		pIdx = start
	} else {
		for j := start - 1; j >= 0; j-- {
			if h.Entries[j].Kind == PolicyEntry {
				pIdx = j
				break
			}
		}
	}
	if pIdx >= 0 {
		p = h.Entries[pIdx].Policy
		// every policy state up to the one in force must chain validly
		for j := 0; j <= pIdx; j++ {
			if h.Entries[j].Kind == PolicyEntry && !h.Entries[j].Policy.RootValid {
				return reject("policy-chain-invalid", j)
			}
		}
	}
	if h.Entries[start].Kind == AttestEntry {
		a = h.Entries[start].Att
	} else {
		a = h.attBefore(start)
	}
	i := start
	recovered := 0
	for i <= last {
		e := h.Entries[i]
		switch {
		case e.Kind == PolicyEntry:
			if i != start {
				if !e.Policy.RootValid {
					return reject("policy-chain-invalid", i)
				}
				p = e.Policy
			}
		case e.Kind == AttestEntry:
			a = e.Att
		case e.Kind == Propagation && e.Ref == ref:
			if h.PropagationStrict {
				if p == nil {
					return reject("no-policy", i)
				}
				if !p.SelfValid {
					return reject("policy-invalid", i)
				}
				if ok, why := h.Authorised(i, p, a); !ok {
					return reject("propagation-entry-"+why, i)
				}
			}
		case e.Kind == Push && e.Ref == ref:
			if p == nil {
				return reject("no-policy", i)
			}
			if !p.SelfValid {
				return reject("policy-invalid", i)
			}
			ok, why := h.Authorised(i, p, a)
			if ok {
				break
			}
			// violation: tolerated only if revoked and repaired (C07)
			if !h.Skipped(i) {
				return reject("violation:"+why, i)
			}
			good := h.prevForRef(ref, i, true, true)
			if good < 0 {
				return reject("no-last-good-state", i)
			}
			goodTree := h.Obj.Tree(h.Entries[good].Commit)
			fix := -1
			unskippedBetween := false
			for j := i + 1; j <= last; j++ {
				f := h.Entries[j]
				if f.Kind != Push || f.Ref != ref {
					continue
				}
				if h.Obj.Tree(f.Commit) == goodTree && !h.Skipped(j) {
					fix = j
					break
				}
				if !h.Skipped(j) {
					unskippedBetween = true
				}
			}
			if fix < 0 {
				return reject("violation-not-repaired:"+why, i)
			}
			if unskippedBetween {
				return reject("invalid-entry-not-skipped", i)
			}
			// entries for gittuf's namespaces between i and fix still count
			for j := i + 1; j < fix; j++ {
				switch h.Entries[j].Kind {
				case PolicyEntry:
					if !h.Entries[j].Policy.RootValid {
						return reject("policy-chain-invalid", j)
					}
					p = h.Entries[j].Policy
				case AttestEntry:
					a = h.Entries[j].Att
				}
			}
			i = fix
			recovered++
		}
		i++
	}
	return Verdict{OK: true, Recovered: recovered}
}

// Full is verification of the whole log for ref.
func (h *History) Full(ref string) (Verdict, bool) {
	first, last := -1, -1
	for i, e := range h.Entries {
		if h.isUpdater(i) && e.Ref == ref {
			if first < 0 {
				first = i
			}
			last = i
		}
	}
	if first < 0 {
		return Verdict{}, false
	}
	return h.VerifyFrom(ref, first, last), true
}

// Latest is latest-only verification.
func (h *History) Latest(ref string) (Verdict, bool) {
	last := -1
	for i, e := range h.Entries {
		if h.isUpdater(i) && e.Ref == ref {
			last = i
		}
	}
	if last < 0 {
		return Verdict{}, false
	}
	return h.VerifyFrom(ref, last, last), true
}

// AllPoliciesValid reports whether every policy entry of the history satisfies
// all of C02's conditions (a history "produced only by authorised actors").
func (h *History) AllPoliciesValid() bool {
	for _, e := range h.Entries {
		if e.Kind == PolicyEntry && !(e.Policy.RootValid && e.Policy.SelfValid) {
			return false
		}
	}
	return true
}

// LastIndex returns the index of the latest updater entry for ref.
func (h *History) LastIndex(ref string) int {
	last := -1
	for i, e := range h.Entries {
		if h.isUpdater(i) && e.Ref == ref {
			last = i
		}
	}
	return last
}

func (v Verdict) String() string {
	if v.OK {
		return "accept"
	}
	return "reject(" + strings.SplitN(v.Reason, ":", 2)[0] + ")"
}
