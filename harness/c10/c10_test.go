// Package c10 decides property C10 ("file rules see every changed path
// verbatim; odd path names are not exempt") by bounded-exhaustive enumeration
// of path alphabets x tree placements x commit shapes on REAL git
// repositories (lane G).
//
// Trees, blobs and commits are created with git plumbing (hash-object,
// mktree -z, raw commit objects) that shares no code with gitinterface; the
// ground truth is read back with NUL-delimited plumbing (ls-tree -z,
// diff-tree -z) and cross-checked against the harness's own model of what it
// wrote. The code under test is gitinterface's readers and writer
// (GetFilePathsChangedByCommit, GetAllFilesInTree, GetEntriesInTree,
// WriteTree) and, end to end, policy verification of a push that changes a
// protected odd-named path.
package c10

import (
	"bytes"
	"context"
	"encoding/json"
	"fmt"
	"os"
	"sort"
	"strings"
	"testing"
	"time"

	"github.com/gittuf/gittuf/internal/policy"
	sslibdsse "github.com/gittuf/gittuf/internal/third_party/go-securesystemslib/dsse"
	"github.com/gittuf/gittuf/internal/tuf"
	"github.com/gittuf/gittuf/pkg/githash"
	"github.com/gittuf/gittuf/pkg/gitstore"
	"github.com/gittuf/gittuf/verif/evid"
	"github.com/gittuf/gittuf/verif/gitback"
	"github.com/gittuf/gittuf/verif/keys"
	"github.com/gittuf/gittuf/verif/world"
)

// ---------------------------------------------------------------------------
// alphabet

type comp struct {
	Name  string // bytes of the path component
	Class string // class label used in coverage classes
}

var alphabet = []comp{
	{"a", "plain"},
	{"a b", "space-inner"},
	{" lead", "space-lead"},
	{"trail ", "space-trail"},
	{"é", "utf8-2byte"},
	{"日本", "utf8-3byte"},
	{`q"q`, "dquote"},
	{`b\s`, "backslash"},
	{"t\tb", "tab"},
	{"\x01c", "ctrl"},
	{"x*y", "glob-star"},
	{"[z]", "glob-bracket"},
	{"?", "glob-qmark"},
}

// extra components explored in the thorough tier only (beyond the stated alphabet)
var alphabetExtra = []comp{
	{`"lq`, "dquote-lead"},
	{"a  b", "space-double"},
}

func compClass(name string) string {
	for _, c := range append(append([]comp{}, alphabet...), alphabetExtra...) {
		if c.Name == name {
			return c.Class
		}
	}
	return "other"
}

// Case is one enumerated (and replayable) input.
type Case struct {
	Kind  string   `json:"kind"`  // reader | e2e
	Comps []string `json:"comps"` // one or two odd components
	Place string   `json:"place"` // file | dir | deep | sub | pairfile | pairdir
	Ctx   string   `json:"ctx"`   // alone | mid
	Shape string   `json:"shape"` // commit shape
	// e2e only
	Pattern string `json:"pattern,omitempty"` // literal | srcstar | star
	Policy  string `json:"policy,omitempty"`  // primary | delegated
	Unauth  string `json:"unauth,omitempty"`  // P1 | unsigned
}

func (c Case) String() string {
	b, _ := json.Marshal(c)
	return string(b)
}

func (c Case) oddPath() string {
	c0 := c.Comps[0]
	switch c.Place {
	case "file":
		return c0
	case "dir":
		return c0 + "/in"
	case "deep":
		return c0 + "/" + c0 + "/" + c0
	case "sub":
		return "src/" + c0
	case "pairfile":
		return c0 + "/" + c.Comps[1]
	case "pairdir":
		return c0 + "/" + c.Comps[1] + "/in"
	}
	panic("bad place " + c.Place)
}

func (c Case) compClasses() string {
	cl := []string{}
	for _, x := range c.Comps {
		cl = append(cl, compClass(x))
	}
	return strings.Join(cl, "+")
}

// ---------------------------------------------------------------------------
// ground-truth plumbing (independent of gitinterface's parsers)

type gt struct {
	r     *gitback.Repo
	cache map[string]string // object cache of this repository: blob content / tree listing -> id
}

func newGT(r *gitback.Repo) gt { return gt{r: r, cache: map[string]string{}} }

func (g gt) git(stdin []byte, args ...string) []byte {
	out, err := g.r.Git(stdin, args...)
	if err != nil {
		panic(harnessErr{err})
	}
	return out
}

type harnessErr struct{ err error }

func (g gt) blob(content string) string {
	if id, ok := g.cache["b:"+content]; ok {
		return id
	}
	id := strings.TrimSpace(string(g.git([]byte(content), "hash-object", "-w", "--stdin")))
	g.cache["b:"+content] = id
	return id
}

// tree writes nested trees for {path: content} with `git mktree -z`.
func (g gt) tree(files map[string]string) string {
	direct := map[string]string{}
	subs := map[string]map[string]string{}
	for p, content := range files {
		if i := strings.IndexByte(p, '/'); i >= 0 {
			if subs[p[:i]] == nil {
				subs[p[:i]] = map[string]string{}
			}
			subs[p[:i]][p[i+1:]] = content
		} else {
			direct[p] = content
		}
	}
	recs := []string{}
	for name, content := range direct {
		recs = append(recs, fmt.Sprintf("100644 blob %s\t%s\x00", g.blob(content), name))
	}
	for name, m := range subs {
		recs = append(recs, fmt.Sprintf("040000 tree %s\t%s\x00", g.tree(m), name))
	}
	sort.Strings(recs)
	in := strings.Join(recs, "")
	if id, ok := g.cache["t:"+in]; ok {
		return id
	}
	id := strings.TrimSpace(string(g.git([]byte(in), "mktree", "-z")))
	g.cache["t:"+in] = id
	return id
}

func mustHash(s string) githash.Hash {
	h, err := githash.NewHash(s)
	if err != nil {
		panic(harnessErr{err})
	}
	return h
}

func (g gt) commit(tree string, parents []string, msg string, key *keys.Key) string {
	ps := []githash.Hash{}
	for _, p := range parents {
		ps = append(ps, mustHash(p))
	}
	var pem []byte
	if key != nil {
		pem = key.PEM
	}
	ck := "c:" + tree + ":" + strings.Join(parents, ",") + ":" + msg
	if key == nil {
		if id, ok := g.cache[ck]; ok {
			return id
		}
	}
	id, err := g.r.PutCommit(mustHash(tree), ps, msg+"\n", pem)
	if err != nil {
		panic(harnessErr{err})
	}
	if key == nil {
		g.cache[ck] = id.String()
	}
	return id.String()
}

type lsEntry struct {
	Mode, Type, ID, Name string
}

func (g gt) lsTree(id string, recursive bool) []lsEntry {
	args := []string{"ls-tree", "-z"}
	if recursive {
		args = append(args, "-r")
	}
	args = append(args, id)
	out := g.git(nil, args...)
	res := []lsEntry{}
	for _, rec := range bytes.Split(out, []byte{0}) {
		if len(rec) == 0 {
			continue
		}
		tab := bytes.IndexByte(rec, '\t')
		meta := strings.Fields(string(rec[:tab]))
		res = append(res, lsEntry{Mode: meta[0], Type: meta[1], ID: meta[2], Name: string(rec[tab+1:])})
	}
	return res
}

// allTrees returns the ids of the tree and all its subtrees with a label.
func (g gt) allTrees(id string) map[string]string {
	res := map[string]string{id: "<root>"}
	out := g.git(nil, "ls-tree", "-z", "-r", "-t", id)
	for _, rec := range bytes.Split(out, []byte{0}) {
		if len(rec) == 0 {
			continue
		}
		tab := bytes.IndexByte(rec, '\t')
		meta := strings.Fields(string(rec[:tab]))
		if meta[1] == "tree" {
			res[meta[2]] = string(rec[tab+1:])
		}
	}
	return res
}

func (g gt) diffNames(a, b string) []string {
	out := g.git(nil, "diff-tree", "-r", "-z", "--name-only", "--no-commit-id", a, b)
	res := []string{}
	for _, rec := range bytes.Split(out, []byte{0}) {
		if len(rec) != 0 {
			res = append(res, string(rec))
		}
	}
	return res
}

// ---------------------------------------------------------------------------
// model

type model map[string]string // path -> content

func (m model) clone() model {
	n := model{}
	for k, v := range m {
		n[k] = v
	}
	return n
}

func modelDiff(a, b model) map[string]bool {
	d := map[string]bool{}
	for p, c := range a {
		if c2, ok := b[p]; !ok || c2 != c {
			d[p] = true
		}
	}
	for p := range b {
		if _, ok := a[p]; !ok {
			d[p] = true
		}
	}
	return d
}

func keysOf(m map[string]bool) []string {
	r := []string{}
	for k := range m {
		r = append(r, k)
	}
	sort.Strings(r)
	return r
}

// commitSpec is one commit of a shape.
type commitSpec struct {
	m       model
	parents []int
	signer  string // "", "P0", "S" (the varied signer)
}

// buildShape returns the commits of the shape (the last one is the commit
// under test), for the odd path P with companion files comp.
func buildShape(shape, P string, companions model) []commitSpec {
	with := func(m model, kv ...string) model {
		n := m.clone()
		for i := 0; i < len(kv); i += 2 {
			if kv[i+1] == "\x00del" {
				delete(n, kv[i])
			} else {
				n[kv[i]] = kv[i+1]
			}
		}
		return n
	}
	base := companions.clone()
	switch shape {
	case "root":
		return []commitSpec{{m: with(base, P, "v1"), signer: "S"}}
	case "add":
		return []commitSpec{{m: base, signer: "P0"}, {m: with(base, P, "v1"), parents: []int{0}, signer: "S"}}
	case "modify":
		return []commitSpec{{m: with(base, P, "v0"), signer: "P0"}, {m: with(base, P, "v1"), parents: []int{0}, signer: "S"}}
	case "delete":
		return []commitSpec{{m: with(base, P, "v0"), signer: "P0"}, {m: base, parents: []int{0}, signer: "S"}}
	case "hidden":
		// the change to P is made by a commit below the pushed tip
		return []commitSpec{
			{m: with(base, P, "v0"), signer: "P0"},
			{m: with(base, P, "v1"), parents: []int{0}, signer: "S"},
			{m: with(base, P, "v1", "later", "l"), parents: []int{1}, signer: "P0"},
		}
	case "merge-neither":
		// evil merge: P differs from both parents
		b := with(base, P, "v0")
		return []commitSpec{
			{m: b, signer: "P0"},
			{m: with(b, "side1", "s1"), parents: []int{0}, signer: "P0"},
			{m: with(b, "side2", "s2"), parents: []int{0}, signer: "P0"},
			{m: with(b, "side1", "s1", "side2", "s2", P, "v3"), parents: []int{1, 2}, signer: "S"},
		}
	case "merge-side":
		// P is changed by the second parent only; the merge takes it over
		b := with(base, P, "v0")
		return []commitSpec{
			{m: b, signer: "P0"},
			{m: with(b, "side1", "s1"), parents: []int{0}, signer: "P0"},
			{m: with(b, P, "v2"), parents: []int{0}, signer: "S"},
			{m: with(b, "side1", "s1", P, "v2"), parents: []int{1, 2}, signer: "P0"},
		}
	case "merge-last":
		// merge commit whose tree equals its last parent
		b := with(base, P, "v0")
		return []commitSpec{
			{m: b, signer: "P0"},
			{m: with(b, "side1", "s1"), parents: []int{0}, signer: "P0"},
			{m: with(b, P, "v2"), parents: []int{0}, signer: "S"},
			{m: with(b, P, "v2"), parents: []int{1, 2}, signer: "P0"},
		}
	case "merge-revert":
		// the branch is at commit 1 (P changed by the authorized principal);
		// the commit under test is a merge whose FIRST parent is the old
		// commit 0 and whose LAST parent is the branch tip, with commit 0's
		// tree: it reverts P relative to the branch although it equals one of
		// its parents. e2e records commit 1 first, then the merge.
		b := with(base, P, "v0")
		return []commitSpec{
			{m: b, signer: "P0"},
			{m: with(b, P, "v2"), parents: []int{0}, signer: "P0"},
			{m: b, parents: []int{0, 1}, signer: "S"},
		}
	case "merge-first":
		// merge commit whose tree equals its first parent only
		b := with(base, P, "v0")
		return []commitSpec{
			{m: b, signer: "P0"},
			{m: with(b, P, "v2"), parents: []int{0}, signer: "S"},
			{m: with(b, "side1", "s1"), parents: []int{0}, signer: "P0"},
			{m: with(b, P, "v2"), parents: []int{1, 2}, signer: "P0"},
		}
	}
	panic("bad shape " + shape)
}

func companionsFor(ctx string) model {
	if ctx == "mid" {
		return model{"0": "zero", "~": "tilde", "src/m": "m"}
	}
	return model{}
}

// materialize writes the commits and returns their ids and tree ids.
func (g gt) materialize(specs []commitSpec, signerFor func(string) *keys.Key) (ids, trees []string) {
	for i, s := range specs {
		tr := g.tree(s.m)
		ps := []string{}
		for _, p := range s.parents {
			ps = append(ps, ids[p])
		}
		var k *keys.Key
		if signerFor != nil {
			k = signerFor(s.signer)
		}
		ids = append(ids, g.commit(tr, ps, fmt.Sprintf("c%d", i), k))
		trees = append(trees, tr)
	}
	return ids, trees
}

// ---------------------------------------------------------------------------
// diagnosis of a returned string set (labels the CAUSE of a mismatch; the
// verdict itself is only "exact bytes or not")

// gitQuote is git's quote_c_style with core.quotePath=true.
func gitQuote(s string) string {
	need := false
	var b strings.Builder
	b.WriteByte('"')
	for i := 0; i < len(s); i++ {
		ch := s[i]
		switch {
		case ch == '"':
			b.WriteString(`\"`)
			need = true
		case ch == '\\':
			b.WriteString(`\\`)
			need = true
		case ch == '\a':
			b.WriteString(`\a`)
			need = true
		case ch == '\b':
			b.WriteString(`\b`)
			need = true
		case ch == '\f':
			b.WriteString(`\f`)
			need = true
		case ch == '\n':
			b.WriteString(`\n`)
			need = true
		case ch == '\r':
			b.WriteString(`\r`)
			need = true
		case ch == '\t':
			b.WriteString(`\t`)
			need = true
		case ch == '\v':
			b.WriteString(`\v`)
			need = true
		case ch < 0x20 || ch >= 0x7f:
			fmt.Fprintf(&b, `\%03o`, ch)
			need = true
		default:
			b.WriteByte(ch)
		}
	}
	b.WriteByte('"')
	if !need {
		return s
	}
	return b.String()
}

func cutAtSpace(s string) string {
	if i := strings.IndexByte(s, ' '); i >= 0 {
		return s[:i]
	}
	return s
}

type finding struct {
	Cause  string
	Detail string
}

// diagnose compares got with the required strings (must) and the tolerated
// ones (may ⊇ must). lsBased selects the transformations plausible for
// ls-tree line parsers.
func diagnose(must []string, may map[string]bool, got []string, lsBased bool) []finding {
	gotSet := map[string]bool{}
	for _, s := range got {
		gotSet[s] = true
	}
	missing := []string{}
	for _, m := range must {
		if !gotSet[m] {
			missing = append(missing, m)
		}
	}
	extra := map[string]bool{}
	for s := range gotSet {
		if !may[s] {
			extra[s] = true
		}
	}
	if len(missing) == 0 && len(extra) == 0 {
		return nil
	}
	explained := map[string]bool{}
	fs := []finding{}
	add := func(cause, m, as string) {
		fs = append(fs, finding{cause, fmt.Sprintf("path %q returned as %q", m, as)})
		explained[as] = true
	}
	// explain reports which mangling of the true path m is among the returned strings
	explain := func(m string) bool {
		q := gitQuote(m)
		switch {
		case q != m && extra[q]:
			add("quoted-path", m, q)
		case lsBased && strings.Contains(m, " ") && q == m && extra[cutAtSpace(m)]:
			add("truncated-at-space", m, cutAtSpace(m))
		case lsBased && q != m && strings.Contains(q, " ") && extra[cutAtSpace(q)]:
			add("quoted-path", m, cutAtSpace(q))
			add("truncated-at-space", m, cutAtSpace(q))
		case strings.TrimSpace(m) != m && extra[strings.TrimSpace(m)]:
			add("trimmed-blank", m, strings.TrimSpace(m))
		case strings.TrimLeft(m, " ") != m && extra[strings.TrimLeft(m, " ")]:
			add("trimmed-blank", m, strings.TrimLeft(m, " "))
		case strings.TrimRight(m, " ") != m && extra[strings.TrimRight(m, " ")]:
			add("trimmed-blank", m, strings.TrimRight(m, " "))
		default:
			return false
		}
		return true
	}
	sort.Strings(missing)
	for _, m := range missing {
		if !explain(m) {
			fs = append(fs, finding{"missing-path", fmt.Sprintf("path %q not returned (got %q)", m, got)})
		}
	}
	// strings that stand for a tolerated (not required) path, e.g. a merge
	// commit's path that differs from one parent only
	isMust := map[string]bool{}
	for _, m := range must {
		isMust[m] = true
	}
	for _, m := range keysOf(may) {
		if !gotSet[m] && !isMust[m] {
			explain(m)
		}
	}
	for _, s := range keysOf(extra) {
		if !explained[s] {
			fs = append(fs, finding{"unexpected-string", fmt.Sprintf("returned %q which is no changed/contained path (expected %q)", s, must)})
		}
	}
	return fs
}

// ---------------------------------------------------------------------------
// the check

type runner struct {
	t   *testing.T
	col *evid.Collector
	// shared object-only repository for reader cases
	shared   *gitback.Repo
	sharedGT gt
	verbose  bool
}

func (x *runner) report(c Case, fn string, fs []finding) {
	seen := map[string]bool{}
	for _, f := range fs {
		sig := fmt.Sprintf("C10:%s:%s", f.Cause, fn)
		if seen[sig] {
			continue
		}
		seen[sig] = true
		x.col.Violation(sig, fmt.Sprintf("%s: %s [odd path %q, place=%s ctx=%s shape=%s]", fn, f.Detail, c.oddPath(), c.Place, c.Ctx, c.Shape), c)
		if x.verbose {
			x.t.Logf("VIOLATION %s: %s", sig, f.Detail)
		}
	}
}

func outcome(fs []finding) string {
	if len(fs) == 0 {
		return "exact"
	}
	cs := map[string]bool{}
	for _, f := range fs {
		cs[f.Cause] = true
	}
	return strings.Join(keysOf(cs), "+")
}

func guard(fn func()) (panicked any) {
	defer func() {
		if p := recover(); p != nil {
			if he, ok := p.(harnessErr); ok {
				panic(he)
			}
			panicked = p
		}
	}()
	fn()
	return nil
}

func position(sorted []string, p string) string {
	if strings.HasPrefix(p, "\xff<absent>") {
		return "absent"
	}
	if len(sorted) == 1 {
		return "only"
	}
	if sorted[0] == p {
		return "first"
	}
	if sorted[len(sorted)-1] == p {
		return "last"
	}
	return "mid"
}

// readerCase judges the three readers and the rewrite on one commit shape.
func (x *runner) readerCase(c Case) {
	col := x.col
	g := x.sharedGT
	P := c.oddPath()
	specs := buildShape(c.Shape, P, companionsFor(c.Ctx))
	ids, trees := g.materialize(specs, nil)
	last := len(specs) - 1
	X, XT := ids[last], trees[last]
	mX := specs[last].m

	// harness self-check: plumbing ground truth == model of what was written
	gtFiles := map[string]string{}
	for _, e := range g.lsTree(XT, true) {
		gtFiles[e.Name] = e.ID
	}
	if len(gtFiles) != len(mX) {
		col.Fail(fmt.Sprintf("harness: ls-tree -r -z disagrees with model for %s", c))
		return
	}
	for p, content := range mX {
		if gtFiles[p] != g.blob(content) {
			col.Fail(fmt.Sprintf("harness: ls-tree -r -z disagrees with model at %q for %s", p, c))
			return
		}
	}

	// expected changed paths
	must, may := map[string]bool{}, map[string]bool{}
	switch len(specs[last].parents) {
	case 0:
		for p := range mX {
			must[p], may[p] = true, true
		}
	default:
		for i, pi := range specs[last].parents {
			d := modelDiff(specs[pi].m, mX)
			// cross-check with diff-tree -z
			if dn := g.diffNames(ids[pi], X); strings.Join(dn, "\x00") != strings.Join(keysOf(d), "\x00") {
				col.Fail(fmt.Sprintf("harness: diff-tree -z %q disagrees with model diff %q for %s", dn, keysOf(d), c))
				return
			}
			for p := range d {
				may[p] = true
			}
			if i == 0 {
				for p := range d {
					must[p] = true
				}
			} else {
				for p := range must {
					if !d[p] {
						delete(must, p)
					}
				}
			}
		}
	}

	xid := mustHash(X)
	xt := mustHash(XT)
	pcl := c.compClasses()

	// --- GetFilePathsChangedByCommit
	{
		var got []string
		var err error
		pn := guard(func() { got, err = x.shared.GetFilePathsChangedByCommit(xid) })
		col.Inc("evaluations")
		col.Inc("reader_calls_changed_paths")
		var fs []finding
		switch {
		case pn != nil:
			fs = []finding{{"panic", fmt.Sprint(pn)}}
		case err != nil:
			fs = []finding{{"error", err.Error()}}
		default:
			fs = diagnose(keysOf(must), may, got, false)
		}
		pos := "-"
		if must[P] {
			pos = position(keysOf(may), P)
		}
		col.Class("changed-paths comp=%s place=%s shape=%s pos=%s -> %s", pcl, c.Place, c.Shape, pos, outcome(fs))
		if len(fs) == 0 {
			col.Inc("reader_exact")
			if len(must) < len(may) && len(got) == len(may) {
				col.Inc("merge_union_reported")
			}
		} else {
			col.Inc("reader_mismatch")
			x.report(c, "GetFilePathsChangedByCommit", fs)
		}
		if x.verbose {
			x.t.Logf("GetFilePathsChangedByCommit(%s) = %q, must %q may %q", c.Shape, got, keysOf(must), keysOf(may))
		}
	}

	// --- GetAllFilesInTree
	var readBack map[string]githash.Hash
	if len(mX) > 0 {
		var err error
		pn := guard(func() { readBack, err = x.shared.GetAllFilesInTree(xt) })
		col.Inc("evaluations")
		col.Inc("reader_calls_all_files")
		var fs []finding
		switch {
		case pn != nil:
			fs = []finding{{"panic", fmt.Sprint(pn)}}
		case err != nil:
			fs = []finding{{"error", err.Error()}}
		default:
			want := map[string]bool{}
			got := []string{}
			for p := range gtFiles {
				want[p] = true
			}
			for p := range readBack {
				got = append(got, p)
			}
			fs = diagnose(keysOf(want), want, got, true)
			for p, id := range readBack {
				if w, ok := gtFiles[p]; ok && w != id.String() {
					fs = append(fs, finding{"wrong-object-id", fmt.Sprintf("path %q has blob %s, returned %s", p, w, id)})
				}
			}
		}
		col.Class("all-files comp=%s place=%s pos=%s -> %s", pcl, c.Place, position(keysOf(boolset(gtFiles)), pathIn(gtFiles, P)), outcome(fs))
		if len(fs) == 0 {
			col.Inc("reader_exact")
		} else {
			col.Inc("reader_mismatch")
			x.report(c, "GetAllFilesInTree", fs)
		}
		if x.verbose {
			x.t.Logf("GetAllFilesInTree = %v ; ground truth %v", readBack, gtFiles)
		}
	}

	// --- GetEntriesInTree on the root tree and every subtree
	trs := g.allTrees(XT)
	for _, tid := range keysOf(boolset(trs)) {
		want := g.lsTree(tid, false)
		if len(want) == 0 {
			continue
		}
		var got []gitstore.TreeEntry
		var err error
		pn := guard(func() { got, err = x.shared.GetEntriesInTree(mustHash(tid)) })
		col.Inc("evaluations")
		col.Inc("reader_calls_entries")
		var fs []finding
		switch {
		case pn != nil:
			fs = []finding{{"panic", fmt.Sprint(pn)}}
		case err != nil:
			fs = []finding{{"error", err.Error()}}
		default:
			wn := map[string]lsEntry{}
			ws := map[string]bool{}
			for _, e := range want {
				wn[e.Name] = e
				ws[e.Name] = true
			}
			gn := []string{}
			for _, e := range got {
				gn = append(gn, e.Path)
			}
			fs = diagnose(keysOf(ws), ws, gn, true)
			for _, e := range got {
				if w, ok := wn[e.Path]; ok {
					kind := gitstore.KindBlob
					if w.Type == "tree" {
						kind = gitstore.KindSubtree
					}
					if w.ID != e.ID.String() || kind != e.Kind {
						fs = append(fs, finding{"wrong-object-id", fmt.Sprintf("entry %q is %s %s, returned %s kind=%v", e.Path, w.Type, w.ID, e.ID, e.Kind)})
					}
				}
			}
		}
		col.Class("entries comp=%s place=%s tree=%s -> %s", pcl, c.Place, treeLabel(trs[tid], c), outcome(fs))
		if len(fs) == 0 {
			col.Inc("reader_exact")
		} else {
			col.Inc("reader_mismatch")
			x.report(c, "GetEntriesInTree", fs)
		}
		if x.verbose {
			x.t.Logf("GetEntriesInTree(%s %q) = %v ; ground truth %v", tid, trs[tid], got, want)
		}
	}

	// --- rewrite: (1) read with GetAllFilesInTree and write with WriteTree,
	// (2) write the ground-truth file list with WriteTree
	if len(mX) > 0 {
		rewrite := func(label string, files map[string]string) {
			entries := []gitstore.TreeEntry{}
			for _, p := range keysOf(boolset(files)) {
				entries = append(entries, gitstore.TreeEntry{Path: p, ID: mustHash(files[p]), Kind: gitstore.KindBlob})
			}
			var id githash.Hash
			var err error
			pn := guard(func() { id, err = x.shared.WriteTree(entries) })
			col.Inc("evaluations")
			col.Inc("rewrites")
			res := "same-id"
			detail := ""
			switch {
			case pn != nil:
				res, detail = "panic", fmt.Sprint(pn)
			case err != nil:
				res, detail = "error", firstLine(err.Error())
			case id.String() != XT:
				res = "different-id"
				names := []string{}
				for _, e := range g.lsTree(id.String(), true) {
					names = append(names, e.Name)
				}
				detail = fmt.Sprintf("rewritten tree lists %q", names)
			}
			col.Class("rewrite via=%s comp=%s place=%s -> %s", label, pcl, c.Place, res)
			if res == "same-id" {
				col.Inc("rewrite_same")
				return
			}
			col.Inc("rewrite_differs")
			x.col.Violation("C10:rewritten-tree-differs:"+label, fmt.Sprintf("tree with %q %s: %s (%s) [place=%s ctx=%s]", keysOf(boolset(gtFiles)), label, res, detail, c.Place, c.Ctx), c)
			if x.verbose {
				x.t.Logf("VIOLATION rewritten-tree-differs:%s: %s %s", label, res, detail)
			}
		}
		if readBack != nil {
			rb := map[string]string{}
			for p, id := range readBack {
				rb[p] = id.String()
			}
			rewrite("GetAllFilesInTree+WriteTree", rb)
		}
		rewrite("WriteTree", gtFiles)
	}
}

func firstLine(s string) string {
	if i := strings.IndexByte(s, '\n'); i >= 0 {
		return s[:i]
	}
	return s
}

func boolset[V any](m map[string]V) map[string]bool {
	r := map[string]bool{}
	for k := range m {
		r[k] = true
	}
	return r
}

func pathIn(m map[string]string, p string) string {
	if _, ok := m[p]; ok {
		return p
	}
	return "\xff<absent>"
}

func treeLabel(label string, c Case) string {
	if label == "<root>" {
		return "root"
	}
	if strings.HasPrefix(c.oddPath(), label+"/") {
		return fmt.Sprintf("odd-depth%d", strings.Count(label, "/")+1)
	}
	return "companion"
}

// ---------------------------------------------------------------------------
// end to end

func fnEscape(s string) string {
	var b strings.Builder
	for i := 0; i < len(s); i++ {
		switch s[i] {
		case '\\', '*', '?', '[':
			b.WriteByte('\\')
		}
		b.WriteByte(s[i])
	}
	return b.String()
}

const mainRef = "refs/heads/main"

// e2eOne builds a fresh repository with the policy and the push, the varied
// commits signed by signer (nil = unsigned), and returns VerifyRefFull's error
// and the diagnosis of GetFilePathsChangedByCommit on the commit changing P.
func (x *runner) e2eOne(c Case, signer *keys.Key, pusher *keys.Key) (verr error, cause string) {
	r := gitback.New(x.t, true)
	defer os.RemoveAll(r.Dir)
	g := newGT(r)
	P := c.oddPath()

	r0, t0, p0, p1 := keys.Get("R0"), keys.Get("T0"), keys.Get("P0"), keys.Get("P1")
	var pat string
	switch c.Pattern {
	case "literal":
		pat = "file:" + fnEscape(P)
	case "srcstar":
		pat = "file:src/*"
	case "star":
		pat = "file:*"
	default:
		panic("bad pattern")
	}
	root := world.Root(1, []tuf.Principal{r0.TUFKey()}, 1, []tuf.Principal{t0.TUFKey()}, 1)
	fileRule := world.RuleSpec{Name: "protect-file", Patterns: []string{pat}, Principals: []string{p0.KeyID}, Threshold: 1}
	var st *policy.State
	switch c.Policy {
	case "primary":
		tg := world.Targets(1, []tuf.Principal{p0.TUFKey(), p1.TUFKey()}, []world.RuleSpec{
			{Name: "protect-main", Patterns: []string{"git:" + mainRef}, Principals: []string{p0.KeyID, p1.KeyID}, Threshold: 1},
			fileRule,
		})
		st = world.State(world.Envelope(root, r0), world.Envelope(tg, t0), nil)
	case "delegated":
		// the only rule with a file: pattern lives in a delegated rule file
		tg := world.Targets(1, []tuf.Principal{p0.TUFKey()}, []world.RuleSpec{
			{Name: "del", Patterns: []string{"*"}, Principals: []string{p0.KeyID}, Threshold: 1},
		})
		del := world.Targets(1, []tuf.Principal{p0.TUFKey()}, []world.RuleSpec{fileRule})
		st = world.State(world.Envelope(root, r0), world.Envelope(tg, t0), map[string]*sslibdsse.Envelope{"del": world.Envelope(del, p0)})
	default:
		panic("bad policy shape")
	}
	if _, err := world.PublishPolicy(r, st, false); err != nil {
		panic(harnessErr{fmt.Errorf("publish policy: %w", err)})
	}

	specs := buildShape(c.Shape, P, companionsFor(c.Ctx))
	ids, _ := g.materialize(specs, func(s string) *keys.Key {
		switch s {
		case "P0":
			return p0
		case "S":
			return signer
		}
		return nil
	})
	rec := func(id string, k *keys.Key) {
		if err := r.SetReference(mainRef, mustHash(id)); err != nil {
			panic(harnessErr{err})
		}
		if err := world.Record(r, mainRef, mustHash(id), k); err != nil {
			panic(harnessErr{err})
		}
	}
	if c.Shape == "merge-revert" {
		rec(ids[1], p0) // the branch already holds the authorized change
	} else if len(specs) > 1 {
		rec(ids[0], p0) // base, by the authorized principal
	}
	rec(ids[len(ids)-1], pusher)

	// which commit changes P, and what does the reader say about it?
	cause = "paths-reported-verbatim"
	for i, s := range specs {
		if s.signer != "S" {
			continue
		}
		got, err := r.GetFilePathsChangedByCommit(mustHash(ids[i]))
		if err != nil {
			cause = "reader-error"
			break
		}
		fs := diagnose([]string{P}, map[string]bool{P: true}, onlyRelated(got, specs[i].m, P), false)
		if len(fs) > 0 {
			cause = fs[0].Cause
		}
	}

	_, verr = policy.NewPolicyVerifier(r).VerifyRefFull(context.Background(), mainRef)
	return verr, cause
}

// onlyRelated drops the verbatim companions so that the diagnosis is about P.
func onlyRelated(got []string, m model, P string) []string {
	r := []string{}
	for _, s := range got {
		if _, isCompanion := m[s]; isCompanion && s != P {
			continue
		}
		if s == "later" || s == "side1" || s == "side2" || s == "" {
			continue
		}
		r = append(r, s)
	}
	return r
}

func (x *runner) e2eCase(c Case) {
	col := x.col
	p0, p1 := keys.Get("P0"), keys.Get("P1")
	// unauthorized variant
	var unauth *keys.Key
	pusherU := p1
	if c.Unauth == "P1" {
		unauth = p1
	}
	if c.Policy == "delegated" {
		pusherU = p0 // only P0 may push; the commit is still not P0's
	}
	errU, cause := x.e2eOne(c, unauth, pusherU)
	col.Inc("evaluations")
	col.Inc("e2e_verifications")
	// control: same push, varied commits signed by the authorized principal
	errA, _ := x.e2eOne(c, p0, p0)
	col.Inc("evaluations")
	col.Inc("e2e_verifications")

	resU, resA := "rejected", "verified"
	if errU == nil {
		resU = "ACCEPTED"
	}
	if errA != nil {
		resA = "REJECTED"
	}
	col.Class("e2e comp=%s place=%s shape=%s pattern=%s policy=%s unauth=%s reader=%s -> unauthorized %s, authorized %s", c.compClasses(), c.Place, c.Shape, c.Pattern, c.Policy, c.Unauth, cause, resU, resA)
	if x.verbose {
		x.t.Logf("e2e %s: unauthorized -> %v ; authorized -> %v ; reader cause %s", c, errU, errA, cause)
	}
	if errA == nil {
		col.Inc("e2e_authorized_verified")
	} else {
		// not demanded by the property text; recorded, and the pair is not
		// counted as a discriminating rejection
		col.Inc("e2e_authorized_rejected")
		col.Note("control rejected for %s: %v", c, firstLine(errA.Error()))
	}
	if errU != nil {
		if errA == nil {
			col.Inc("e2e_unauthorized_rejected")
		}
		return
	}
	col.Inc("e2e_unauthorized_accepted")
	col.Violation("C10:e2e-unauthorized-change-accepted:"+cause,
		fmt.Sprintf("rule %s protects %q (only P0); push of a commit changing it signed by %s, no approvals: VerifyRefFull accepted [shape=%s policy=%s]", c.Pattern, c.oddPath(), c.Unauth, c.Shape, c.Policy), c)
}

// ---------------------------------------------------------------------------
// enumeration

func readerCases(thorough bool) []Case {
	cs := []Case{}
	shapes := []string{"root", "add", "modify", "delete", "merge-neither", "merge-last"}
	if thorough {
		shapes = append(shapes, "merge-side", "merge-first", "hidden")
	}
	comps := alphabet
	if thorough {
		comps = append(append([]comp{}, alphabet...), alphabetExtra...)
	}
	for _, c := range comps {
		for _, place := range []string{"file", "dir", "deep", "sub"} {
			for _, ctx := range []string{"alone", "mid"} {
				if !thorough && ctx == "alone" && (place == "deep" || place == "sub") {
					continue // quick: the lone-path context only for file and dir placement
				}
				for _, sh := range shapes {
					cs = append(cs, Case{Kind: "reader", Comps: []string{c.Name}, Place: place, Ctx: ctx, Shape: sh})
				}
			}
		}
	}
	if thorough {
		for _, a := range comps {
			for _, b := range comps {
				if a.Name == b.Name {
					continue // covered by place=deep
				}
				for _, place := range []string{"pairfile", "pairdir"} {
					for _, ctx := range []string{"alone", "mid"} {
						for _, sh := range shapes {
							cs = append(cs, Case{Kind: "reader", Comps: []string{a.Name, b.Name}, Place: place, Ctx: ctx, Shape: sh})
						}
					}
				}
			}
		}
	}
	return cs
}

func e2eCases(thorough bool) []Case {
	cs := []Case{}
	mk := func(comps []string, place, shape, pattern, pol, unauth string) {
		cs = append(cs, Case{Kind: "e2e", Comps: comps, Place: place, Ctx: "mid", Shape: shape, Pattern: pattern, Policy: pol, Unauth: unauth})
	}
	if !thorough {
		for i, c := range alphabet {
			n := []string{c.Name}
			// every component: literal rule on the file itself, src/* rule on the name below src/
			if c.Class == "plain" || i == 1 {
				mk(n, "file", "merge-revert", "literal", "primary", "P1")
			}
			mk(n, "file", "modify", "literal", "primary", "P1")
			mk(n, "sub", "add", "srcstar", "primary", "P1")
			// rotate the remaining dimensions over the alphabet; the plain
			// component (the control class) gets all of them
			for rot := 0; rot < 4; rot++ {
				if c.Class != "plain" && rot != i%4 {
					continue
				}
				switch rot {
				case 0:
					mk(n, "dir", "delete", "literal", "primary", "P1")
					mk(n, "sub", "merge-neither", "srcstar", "delegated", "P1")
				case 1:
					mk(n, "file", "root", "star", "primary", "P1")
					mk(n, "sub", "hidden", "srcstar", "primary", "unsigned")
				case 2:
					mk(n, "deep", "merge-side", "literal", "primary", "P1")
					mk(n, "file", "add", "literal", "delegated", "P1")
				case 3:
					mk(n, "sub", "merge-last", "srcstar", "primary", "P1")
					mk(n, "dir", "modify", "star", "delegated", "unsigned")
				}
			}
		}
		return cs
	}
	comps := append(append([]comp{}, alphabet...), alphabetExtra...)
	for _, c := range comps {
		n := []string{c.Name}
		for _, pp := range [][2]string{{"file", "literal"}, {"file", "star"}, {"dir", "literal"}, {"deep", "literal"}, {"sub", "srcstar"}, {"sub", "literal"}} {
			for _, sh := range []string{"root", "add", "modify", "delete", "hidden", "merge-neither", "merge-side", "merge-last", "merge-revert"} {
				for _, pol := range []string{"primary", "delegated"} {
					if pol == "delegated" && (sh == "root" || sh == "delete" || sh == "merge-last") {
						continue
					}
					mk(n, pp[0], sh, pp[1], pol, "P1")
				}
			}
			mk(n, pp[0], "modify", pp[1], "primary", "unsigned")
		}
	}
	// pairs: a directory named by one of four representative components holding
	// a file named by any other component, below a literal rule
	for _, a := range []string{"a", "a b", "é", `q"q`} {
		for _, b := range alphabet {
			if a == b.Name {
				continue
			}
			mk([]string{a, b.Name}, "pairfile", "modify", "literal", "primary", "P1")
		}
	}
	return cs
}

func TestC10(t *testing.T) {
	col := evid.New("C10")
	defer func() {
		if err := col.Write(); err != nil {
			t.Fatal(err)
		}
	}()
	x := &runner{t: t, col: col}
	defer func() {
		if p := recover(); p != nil {
			if he, ok := p.(harnessErr); ok {
				col.Fail("harness error: " + he.err.Error())
				return
			}
			panic(p)
		}
	}()

	col.Rule("reader cases: every path component of the alphabet x placement {file c, dir c/in, deep c/c/c, sub src/c; thorough also ordered pairs c1/c2 and c1/c2/in} x tree context {alone, with companions sorting before and after} x commit shape {root, add, modify, delete, merge != both parents, merge == last parent; thorough also merge taking the second parent's change, merge == first parent, change below the tip}; per case GetFilePathsChangedByCommit, GetAllFilesInTree, GetEntriesInTree (root and every subtree) and WriteTree are judged against NUL-delimited plumbing. e2e cases: component x placement x rule pattern {fnmatch-escaped literal, file:src/*, file:*} x commit shape (e2e also: a merge that reverts the protected path relative to the branch tip, its last parent, while its tree equals its first parent, an old commit) x policy shape {file rule in primary rule file, only in a delegated rule file} x unauthorized signer {other principal, unsigned}; each is verified twice (varied commit signed by unauthorized key / by the authorized principal). A class is (character class of the component(s), placement, shape, position, outcome).")
	col.Assume("trees contain regular files (100644) and directories only; symlinks, gitlinks and executable bits are outside the statement")
	col.Assume("path components contain no '/' or NUL and no newline (the quantifier says newline-free); '.' and '..' are not valid git path components")
	col.Assume("for merge commits the oracle requires every path that differs from ALL parents and tolerates any path that differs from SOME parent; for root and single-parent commits the changed paths are exact")
	col.Assume("git's configuration is the default one (no core.quotePath override), as set up by gitinterface's test repository helper and the driver's GIT_CONFIG_GLOBAL=/dev/null")
	col.Assume("signatures are real ssh signatures of deterministic keys; cryptography is not explored")
	col.Bound("alphabet", len(alphabet))

	if rp := evid.ReplayFile(); rp != "" {
		var c Case
		if err := evid.LoadReplay(rp, &c); err != nil {
			t.Fatal(err)
		}
		x.verbose = true
		t.Logf("replaying %s", c)
		if c.Kind == "e2e" {
			x.e2eCase(c)
		} else {
			x.shared = gitback.New(t, true)
			x.sharedGT = newGT(x.shared)
			x.readerCase(c)
			os.RemoveAll(x.shared.Dir)
		}
		if n := col.NumViolations(); n > 0 {
			t.Logf("replay: %d violation(s) reproduced", n)
		} else {
			t.Logf("replay: no violation")
		}
		return
	}

	thorough := evid.Thorough()
	rcs := readerCases(thorough)
	ecs := e2eCases(thorough)
	col.Bound("reader_cases", len(rcs))
	col.Bound("e2e_cases", len(ecs))
	col.Sample(rcs[7])
	col.Sample(ecs[3])

	// Interleave: after each end-to-end case of this shard, a proportional share
	// of its reader cases, so that a run cut short by the time cap has still
	// exercised both halves.
	mineE, mineR := []Case{}, []Case{}
	for k, c := range ecs {
		if evid.Mine(k) {
			mineE = append(mineE, c)
		}
	}
	for k, c := range rcs {
		if evid.Mine(k + 5) {
			mineR = append(mineR, c)
		}
	}
	x.shared = gitback.New(t, true)
	x.sharedGT = newGT(x.shared)
	defer os.RemoveAll(x.shared.Dir)
	share := 1
	if len(mineE) > 0 {
		share = (len(mineR) + len(mineE) - 1) / len(mineE)
	}
	ri := 0
	readers := func(n int) bool {
		for ; n > 0 && ri < len(mineR); n-- {
			if col.Expired() {
				return false
			}
			c := mineR[ri]
			ri++
			t0 := time.Now()
			x.readerCase(c)
			col.Add("ms_reader_total", time.Since(t0).Milliseconds())
			col.Inc("reader_cases_done")
			if ri%29 == 1 {
				col.Sample(c)
			}
		}
		return true
	}
	for _, c := range mineE {
		if !readers(share) {
			return
		}
		if col.Expired() {
			return
		}
		t0 := time.Now()
		x.e2eCase(c)
		col.Add("ms_e2e_total", time.Since(t0).Milliseconds())
		col.Inc("e2e_cases_done")
	}
	readers(len(mineR))
}
