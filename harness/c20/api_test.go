package c20

import (
	"crypto/sha256"
	"encoding/hex"
	"fmt"
	"os"
	"path/filepath"
	"sort"
	"strings"
	"testing"

	"github.com/gittuf/gittuf/internal/luasandbox"
	"github.com/gittuf/gittuf/verif/evid"
	"github.com/gittuf/gittuf/verif/gitback"
	"github.com/gittuf/gittuf/verif/world"
	lua "github.com/yuin/gopher-lua"
)

// repoFingerprint: refs, HEAD, object count, config, index and work tree, read
// with plain git plumbing and the file system (no gittuf code).
func repoFingerprint(r *gitback.Repo) (string, error) {
	var b strings.Builder
	for _, args := range [][]string{
		{"for-each-ref", "--format=%(refname) %(objectname)"},
		{"symbolic-ref", "HEAD"},
		{"count-objects", "-v"},
		{"config", "--local", "--list"},
	} {
		out, err := r.Git(nil, args...)
		if err != nil {
			return "", err
		}
		b.WriteString(strings.Join(args, " ") + "\n" + string(out) + "\n")
	}
	files := []string{}
	err := filepath.Walk(r.Dir, func(p string, info os.FileInfo, err error) error {
		if err != nil {
			return nil
		}
		if info.Mode().IsRegular() {
			rel, _ := filepath.Rel(r.Dir, p)
			if strings.Contains(rel, "/objects/") && !strings.Contains(rel, "/info/") {
				files = append(files, rel) // object files are immutable: the name is enough
				return nil
			}
			c, err := os.ReadFile(p)
			if err != nil {
				return nil
			}
			h := sha256.Sum256(c)
			files = append(files, rel+" "+hex.EncodeToString(h[:8]))
		}
		return nil
	})
	if err != nil {
		return "", err
	}
	sort.Strings(files)
	b.WriteString(strings.Join(files, "\n"))
	return b.String(), nil
}

// checkAPIsReadOnly calls every registered API from a script with inert and
// with meaningful arguments and compares the repository before and after.
func checkAPIsReadOnly(t *testing.T, col *evid.Collector) {
	r := gitback.New(t, false)
	blob, err := r.WriteBlob([]byte("hello\n"))
	if err != nil {
		col.Fail("api: " + err.Error())
		return
	}
	tree := world.Tree(r, map[string]string{"file.txt": "hello\n"})
	c1, err := r.PutCommit(tree, nil, "first\n", nil)
	if err != nil {
		col.Fail("api: " + err.Error())
		return
	}
	_ = r.SetReference("refs/heads/main", c1)
	tag, _ := r.PutTag(c1, "v1", "tag\n", nil)
	if tag != nil {
		_ = r.SetReference("refs/tags/v1", tag)
	}
	_, _ = r.Git(nil, "config", "--local", "remote.origin.url", "https://example.invalid/x.git")
	// an untracked and a staged file so that status has something to say
	_ = os.WriteFile(filepath.Join(r.Dir, "staged.txt"), []byte("s\n"), 0o644)
	_, _ = r.Git(nil, "--work-tree", r.Dir, "add", "staged.txt")
	_ = os.WriteFile(filepath.Join(r.Dir, "untracked.txt"), []byte("u\n"), 0o644)

	env, _, err := newSandbox(r.Repository, 60)
	if err != nil {
		col.Fail("api: " + err.Error())
		return
	}
	defer env.Cleanup()
	tagS := ""
	if tag != nil {
		tagS = tag.String()
	}
	args := []string{`"x"`, `"refs/heads/main"`, `"HEAD"`, `"origin"`, fmt.Sprintf("%q", blob.String()), fmt.Sprintf("%q", c1.String()),
		fmt.Sprintf("%q", tagS), `"--upload-pack=touch /tmp/c20pwn"`, "0", "nil", "{}"}
	apis := env.GetAPIs()
	sort.Slice(apis, func(i, j int) bool { return apis[i].GetName() < apis[j].GetName() })
	col.Bound("registered_apis", len(apis))
	before, err := repoFingerprint(r)
	if err != nil {
		col.Fail("api: " + err.Error())
		return
	}
	for _, a := range apis {
		kind := "go"
		if _, ok := a.(*luasandbox.LuaAPI); ok {
			kind = "lua"
		}
		var b strings.Builder
		b.WriteString("__c20api = {}\n")
		for _, arg := range args {
			fmt.Fprintf(&b, "__c20api[#__c20api + 1] = {pcall(%s, %s, %s)}\n", a.GetName(), arg, arg)
		}
		b.WriteString("return 0\n")
		_, rerr := env.RunScript(b.String(), lua.LTable{})
		after, err := repoFingerprint(r)
		if err != nil {
			col.Fail("api: " + err.Error())
			return
		}
		col.Inc("evaluations")
		col.Inc("traces_validated_against_impl")
		col.Add("api_calls", int64(len(args)))
		out := "unchanged"
		if before != after {
			out = "REPOSITORY-CHANGED"
			col.Violation("C20:registered-api-not-read-only:"+a.GetName(), fmt.Sprintf("calling %s changed the repository: %s", a.GetName(), firstDiff(before, after)), replayCase{Kind: "script", Script: b.String()})
			before = after
		}
		if rerr != nil {
			out += "+script-error"
		}
		col.Class("api/%s/%s/%s", kind, a.GetName(), out)
	}
}

func firstDiff(a, b string) string {
	al, bl := strings.Split(a, "\n"), strings.Split(b, "\n")
	am := map[string]bool{}
	for _, x := range al {
		am[x] = true
	}
	for _, x := range bl {
		if !am[x] {
			return "new line: " + x
		}
	}
	return "lines removed"
}
