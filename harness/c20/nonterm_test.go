package c20

import (
	"bufio"
	"encoding/json"
	"fmt"
	"os"
	"os/exec"
	"strings"
	"syscall"
	"testing"
	"time"

	"github.com/gittuf/gittuf/pkg/gitinterface"
	"github.com/gittuf/gittuf/verif/evid"
	"github.com/gittuf/gittuf/verif/gitback"
	lua "github.com/yuin/gopher-lua"
)

const (
	hookTimeoutS = 1               // T: the hook's timeout in the non-termination runs
	marginS      = 4               // RunScript must be back by T + margin
	childEnv     = "C20_CHILD"     // path of the child's job file
	childMemCap  = uint64(6) << 30 // address-space cap of a child
)

type ntScript struct {
	Kind     string `json:"kind"`   // class name
	Family   string `json:"family"` // "vm" or the library function family
	Script   string `json:"script"`
	NeedRepo bool   `json:"need_repo,omitempty"`
	Quick    bool   `json:"-"`
}

type childJob struct {
	Script   string `json:"script"`
	TimeoutS int    `json:"timeout_s"`
	NeedRepo bool   `json:"need_repo"`
}

type childResult struct {
	Code      int    `json:"code"`
	Err       string `json:"err"`
	ElapsedMS int64  `json:"elapsed_ms"`
}

var longA = strings.Repeat("a", 230)

const lazyPat = ".-.-.-.-.-.-.-.-.-b"
const greedyPat = ".*.*.*.*.*.*.*.*.*b"
const dashPat = "a-a-a-a-a-a-a-a-a-a-b"

func ntScripts() []ntScript {
	A := fmt.Sprintf("%q", longA)
	double := func(n int) string { return fmt.Sprintf("local s = \"a\" for i = 1, %d do s = s .. s end\n", n) }
	out := []ntScript{
		// time spent in VM instructions
		{Kind: "tight-while", Family: "vm", Quick: true, Script: "while true do end"},
		{Kind: "tight-repeat", Family: "vm", Script: "repeat until false"},
		{Kind: "numeric-for", Family: "vm", Script: "for i = 1, 1e15 do end return 0"},
		{Kind: "tail-recursion", Family: "vm", Quick: true, Script: "local function f() return f() end return f()"},
		{Kind: "deep-recursion", Family: "vm", Script: "local function f() f() end f() return 0"},
		{Kind: "coroutine-ping-pong", Family: "vm", Quick: true, Script: `
local a = coroutine.create(function() while true do coroutine.yield() end end)
local b = coroutine.create(function() while true do coroutine.resume(a) coroutine.yield() end end)
while true do coroutine.resume(b) end`},
		{Kind: "loop-inside-coroutine", Family: "vm", Quick: true, Script: "coroutine.wrap(function() while true do end end)() return 0"},
		{Kind: "pcall-swallows-timeout", Family: "vm", Quick: true, Script: "while true do pcall(function() while true do end end) end"},
		{Kind: "xpcall-swallows-timeout-handler-loops", Family: "vm", Quick: true, Script: "while true do xpcall(function() while true do end end, function() while true do end end) end"},
		{Kind: "nested-pcall-recursion", Family: "vm", Script: "local function f() while true do pcall(f) end end f()"},
		{Kind: "pcall-swallow-inside-coroutine", Family: "vm", Quick: true, Script: `
local co = coroutine.wrap(function() while true do pcall(function() while true do end end) end end)
while true do pcall(co) end`},
		{Kind: "coroutine-resume-swallows", Family: "vm", Script: `
while true do
  local co = coroutine.create(function() while true do end end)
  coroutine.resume(co)
end`},
		{Kind: "gsub-callback-busy", Family: "vm", Quick: true, Script: `string.gsub("aaaa", "a", function() while true do end end) return 0`},
		{Kind: "gsub-callback-many", Family: "vm", Script: double(16) + `while true do string.gsub(s, ".", function(c) return c end) end`},
		{Kind: "sort-comparator-busy", Family: "vm", Quick: true, Script: "table.sort({3, 2, 1}, function(a, b) while true do end end) return 0"},
		{Kind: "api-call-loop", Family: "vm", Script: `while true do matchRegex("a+", "aaa") end`},
		{Kind: "strsplit-loop", Family: "vm", Script: `while true do strSplit("a b c", " ") end`},
		{Kind: "git-api-loop", Family: "vm", NeedRepo: true, Script: `while true do gitGetReference("refs/heads/main") end`},
		{Kind: "error-rethrow-loop", Family: "vm", Script: `while true do pcall(error, "x") end`},
		{Kind: "method-call-loop", Family: "vm", Script: `while true do local s = ("x"):upper() end`},
		{Kind: "coroutine-create-loop", Family: "vm", Script: "while true do coroutine.wrap(function() end)() end"},

		// time spent inside one library call
		{Kind: "find-lazy-backtracking", Family: "string.find-backtracking", Quick: true, Script: fmt.Sprintf("return string.find(%s, %q) and 0 or 0", A, lazyPat)},
		{Kind: "match-lazy-backtracking", Family: "string.match-backtracking", Quick: true, Script: fmt.Sprintf("string.match(%s, %q) return 0", A, lazyPat)},
		{Kind: "gmatch-lazy-backtracking", Family: "string.gmatch-backtracking", Quick: true, Script: fmt.Sprintf("for m in string.gmatch(%s, %q) do end return 0", A, lazyPat)},
		{Kind: "gsub-lazy-backtracking", Family: "string.gsub-backtracking", Quick: true, Script: fmt.Sprintf("string.gsub(%s, %q, \"\") return 0", A, lazyPat)},
		{Kind: "strsplit-pattern-injection", Family: "string.gmatch-backtracking", Quick: true, Script: fmt.Sprintf("strSplit(%s, %q) return 0", A, "a]*"+lazyPat+"[^a")},
		{Kind: "find-greedy-backtracking", Family: "string.find-backtracking", Script: fmt.Sprintf("string.find(%s, %q) return 0", A, greedyPat)},
		{Kind: "match-greedy-backtracking", Family: "string.match-backtracking", Script: fmt.Sprintf("string.match(%s, %q) return 0", A, greedyPat)},
		{Kind: "gmatch-greedy-backtracking", Family: "string.gmatch-backtracking", Script: fmt.Sprintf("for m in string.gmatch(%s, %q) do end return 0", A, greedyPat)},
		{Kind: "gsub-greedy-backtracking", Family: "string.gsub-backtracking", Script: fmt.Sprintf("string.gsub(%s, %q, \"\") return 0", A, greedyPat)},
		{Kind: "find-dash-backtracking", Family: "string.find-backtracking", Script: fmt.Sprintf("string.find(%s, %q) return 0", A, dashPat)},
		{Kind: "find-method-backtracking", Family: "string.find-backtracking", Script: fmt.Sprintf("(%s):find(%q) return 0", A, lazyPat)},
		{Kind: "find-under-pcall-backtracking", Family: "string.find-backtracking", Script: fmt.Sprintf("pcall(string.find, %s, %q) return 0", A, lazyPat)},
		{Kind: "find-in-coroutine-backtracking", Family: "string.find-backtracking", Script: fmt.Sprintf("coroutine.wrap(string.find)(%s, %q) return 0", A, lazyPat)},
		{Kind: "find-built-subject-backtracking", Family: "string.find-backtracking", Script: double(8) + fmt.Sprintf("string.find(s, %q) return 0", lazyPat)},
		{Kind: "matchregex-long-input", Family: "matchRegex", Quick: true, Script: double(20) + `matchRegex("(a|aa)*b$", s) return 0`},
		{Kind: "format-huge-width", Family: "string.format", Quick: true, Script: `local s = string.format("%099999999d", 1) return 0`},
		{Kind: "format-huge-precision", Family: "string.format", Script: `local s = string.format("%.99999999f", 1) return 0`},
		{Kind: "concat-large-table", Family: "table.concat", Quick: true, Script: `local t = {} for i = 1, 200000 do t[i] = "abcdefgh" end local s = table.concat(t, ",") return 0`},
		{Kind: "sort-large-table", Family: "table.sort", Quick: true, Script: `local t = {} for i = 1, 500000 do t[i] = (i * 7919) % 1000003 end table.sort(t) return 0`},
		{Kind: "reverse-large-string", Family: "string.reverse", Script: double(23) + "local r = string.reverse(s) return 0"},
		{Kind: "gsub-empty-pattern-large", Family: "string.gsub", Script: double(21) + `local r = string.gsub(s, "", "x") return 0`},
		{Kind: "find-plain-large", Family: "string.find", Script: double(23) + `string.find(s, "ab", 1, true) return 0`},
	}
	return out
}

// childMain runs one script with the hook timeout in this (disposable) process.
func childMain(t *testing.T, jobPath string) {
	b, err := os.ReadFile(jobPath)
	if err != nil {
		fmt.Println("C20CHILDERR", err)
		os.Exit(3)
	}
	var job childJob
	if err := json.Unmarshal(b, &job); err != nil {
		fmt.Println("C20CHILDERR", err)
		os.Exit(3)
	}
	_ = syscall.Setrlimit(syscall.RLIMIT_AS, &syscall.Rlimit{Cur: childMemCap, Max: childMemCap})
	var repo *gitinterface.Repository
	if job.NeedRepo {
		r := gitback.New(t, false)
		tree, _ := r.EmptyTree()
		if c, err := r.PutCommit(tree, nil, "init\n", nil); err == nil {
			_ = r.SetReference("refs/heads/main", c)
		}
		repo = r.Repository
	}
	fmt.Println("C20START")
	os.Stdout.Sync()
	t0 := time.Now()
	env, _, err := newSandbox(repo, job.TimeoutS)
	if err != nil {
		fmt.Println("C20CHILDERR", err)
		os.Exit(3)
	}
	code, rerr := env.RunScript(job.Script, lua.LTable{})
	el := time.Since(t0)
	env.Cleanup()
	res := childResult{Code: code, ElapsedMS: el.Milliseconds()}
	if rerr != nil {
		res.Err = firstLine(rerr.Error())
	}
	out, _ := json.Marshal(res)
	fmt.Println("C20DONE " + string(out))
	os.Stdout.Sync()
}

type ntOutcome struct {
	Returned  bool
	Result    childResult
	WallMS    int64 // from C20START to C20DONE or to the kill
	Overran   bool
	Killed    bool
	ChildFail string
}

// runInChild runs the job in a subprocess, enforcing the hard kill.
func runInChild(job childJob, hardKill time.Duration) ntOutcome {
	dir, err := os.MkdirTemp(os.Getenv("VERIF_SCRATCH"), "c20child-")
	if err != nil {
		return ntOutcome{ChildFail: err.Error()}
	}
	defer os.RemoveAll(dir)
	jp := dir + "/job.json"
	b, _ := json.Marshal(job)
	if err := os.WriteFile(jp, b, 0o644); err != nil {
		return ntOutcome{ChildFail: err.Error()}
	}
	cmd := exec.Command(os.Args[0], "-test.run", "^TestC20$", "-test.count", "1", "-test.timeout", "0")
	cmd.Env = append(os.Environ(), childEnv+"="+jp, "VERIF_SCRATCH="+dir, "TMPDIR="+dir, "VERIF_OUT="+dir+"/unused.json", "VERIF_REPLAY=")
	cmd.Dir = dir
	stdout, err := cmd.StdoutPipe()
	if err != nil {
		return ntOutcome{ChildFail: err.Error()}
	}
	cmd.Stderr = nil
	if err := cmd.Start(); err != nil {
		return ntOutcome{ChildFail: err.Error()}
	}
	type line struct {
		s  string
		at time.Time
	}
	lines := make(chan line, 64)
	go func() {
		sc := bufio.NewScanner(stdout)
		sc.Buffer(make([]byte, 1<<20), 1<<24)
		for sc.Scan() {
			s := sc.Text()
			if strings.HasPrefix(s, "C20") {
				lines <- line{s, time.Now()}
			}
		}
		close(lines)
	}()
	var out ntOutcome
	var started time.Time
	startDeadline := time.After(60 * time.Second)
	var limit, kill <-chan time.Time
loop:
	for {
		select {
		case l, ok := <-lines:
			if !ok {
				if !out.Returned && out.ChildFail == "" && !out.Killed {
					out.ChildFail = "child exited without a result"
				}
				break loop
			}
			switch {
			case l.s == "C20START":
				started = l.at
				startDeadline = nil
				limit = time.After(time.Duration(hookTimeoutS+marginS) * time.Second)
				kill = time.After(hardKill)
			case strings.HasPrefix(l.s, "C20DONE "):
				if err := json.Unmarshal([]byte(l.s[8:]), &out.Result); err != nil {
					out.ChildFail = "bad result line: " + l.s
				} else {
					out.Returned = true
					out.WallMS = l.at.Sub(started).Milliseconds()
				}
			case strings.HasPrefix(l.s, "C20CHILDERR"):
				out.ChildFail = l.s
			}
		case <-startDeadline:
			out.ChildFail = "child did not start within 60 s"
			_ = cmd.Process.Kill()
		case <-limit:
			if !out.Returned {
				out.Overran = true
			}
			limit = nil
		case <-kill:
			if !out.Returned {
				out.Killed = true
				out.WallMS = time.Since(started).Milliseconds()
				_ = cmd.Process.Kill()
			}
			kill = nil
		}
	}
	_ = cmd.Wait()
	if out.Returned && out.WallMS > int64(hookTimeoutS+marginS)*1000 {
		out.Overran = true
	}
	return out
}

func ntSignature(s ntScript) string {
	if s.Family == "vm" {
		return "C20:timeout-not-enforced:vm:" + s.Kind
	}
	return "C20:timeout-not-enforced:inside-library-call:" + s.Family
}

func checkNonTermination(col *evid.Collector, offset int) {
	hardKill := 8 * time.Second
	if evid.Thorough() {
		hardKill = 30 * time.Second
	}
	col.Bound("hook_timeout_s", hookTimeoutS)
	col.Bound("return_deadline_s", hookTimeoutS+marginS)
	col.Bound("hard_kill_s", int(hardKill.Seconds()))
	k := offset
	n := 0
	for _, s := range ntScripts() {
		if !s.Quick && !evid.Thorough() {
			continue
		}
		n++
		k++
		if !evid.Mine(k) {
			continue
		}
		judgeNonTerm(col, s, hardKill)
	}
	col.Bound("nonterm_scripts", n)
}

func judgeNonTerm(col *evid.Collector, s ntScript, hardKill time.Duration) {
	o := runInChild(childJob{Script: s.Script, TimeoutS: hookTimeoutS, NeedRepo: s.NeedRepo}, hardKill)
	if o.ChildFail != "" && !o.Overran {
		// one retry: a child can fail for reasons unrelated to the script
		o = runInChild(childJob{Script: s.Script, TimeoutS: hookTimeoutS, NeedRepo: s.NeedRepo}, hardKill)
		if o.ChildFail != "" && !o.Overran {
			col.Fail(fmt.Sprintf("nonterm %s: %s", s.Kind, o.ChildFail))
			return
		}
	}
	// the only wall-clock oracle of the suite: an overrun must reproduce (a
	// loaded machine can delay one child, not three in a row)
	for try := 0; o.Overran && try < overrunRetries(); try++ {
		col.Inc("nonterm_overrun_retries")
		o2 := runInChild(childJob{Script: s.Script, TimeoutS: hookTimeoutS, NeedRepo: s.NeedRepo}, hardKill)
		if o2.ChildFail != "" && !o2.Overran {
			break
		}
		if !o2.Overran {
			col.Class("nonterm/%s/overran-once-not-reproduced", s.Kind)
			o = o2
		}
	}
	col.Inc("evaluations")
	col.Inc("traces_validated_against_impl")
	col.Inc("nonterm_scripts")
	switch {
	case o.Overran:
		col.Inc("nonterm_overran")
		how := fmt.Sprintf("still running %d ms after start when killed", o.WallMS)
		cls := "overran-killed"
		if o.Returned {
			how = fmt.Sprintf("returned only after %d ms", o.WallMS)
			cls = "overran-returned-late"
		}
		col.Class("nonterm/%s/%s", s.Kind, cls)
		col.Violation(ntSignature(s), fmt.Sprintf("hook timeout %d s, script %q: RunScript %s (limit %d s)", hookTimeoutS, s.Kind, how, hookTimeoutS+marginS),
			replayCase{Kind: "nonterm", NonTerm: &s})
	case o.Result.Err != "":
		col.Inc("nonterm_stopped")
		why := "stopped-by-error"
		if strings.Contains(o.Result.Err, "context deadline exceeded") {
			why = "stopped-by-timeout"
		}
		col.Class("nonterm/%s/%s", s.Kind, why)
		if o.Result.Code == 0 {
			col.Violation("C20:stopped-script-reported-success", fmt.Sprintf("script %q was stopped with %q but exit code is 0", s.Kind, o.Result.Err), replayCase{Kind: "nonterm", NonTerm: &s})
		}
	default:
		col.Inc("nonterm_finished")
		col.Class("nonterm/%s/finished-in-time", s.Kind)
	}
	col.Sample(map[string]any{"nonterm": s.Kind, "returned": o.Returned, "wall_ms": o.WallMS, "run_ms": o.Result.ElapsedMS, "err": o.Result.Err, "code": o.Result.Code, "overran": o.Overran})
}

// ---------------------------------------------------------------------------
// exit code of scripts that do not return a number

type exitCase struct {
	Script    string
	AnyNumber bool // some returned value is a number
	LastNum   bool // the value RunScript looks at (the last one) is a number
	Want0     bool // returns exactly the number 0
}

func exitCases() []exitCase {
	return []exitCase{
		{Script: "return 0", AnyNumber: true, LastNum: true, Want0: true},
		{Script: "return 3", AnyNumber: true, LastNum: true},
		{Script: "return -1", AnyNumber: true, LastNum: true},
		{Script: ""},
		{Script: "return"},
		{Script: "return nil"},
		{Script: `return "0"`},
		{Script: `return "ok"`},
		{Script: "return true"},
		{Script: "return false"},
		{Script: "return {}"},
		{Script: "return {0}"},
		{Script: "return print"},
		{Script: "return function() return 0 end"},
		{Script: "return coroutine.create(function() end)"},
		{Script: "return newproxy(true)"},
		{Script: `return "x", "y"`},
		{Script: `return 0, "x"`, AnyNumber: true},
		{Script: `return "x", 0`, AnyNumber: true, LastNum: true},
		{Script: "return nil, nil"},
		{Script: "local x = 0"},
		{Script: "hookExitCode = 0"},
		{Script: `error("boom")`},
		{Script: "error()"},
		{Script: "error({})"},
		{Script: "return (function() end)()"},
		{Script: "return select(2, 0)"},
		{Script: "return hookParameters"},
		{Script: "this is not lua"},
	}
}

func checkExitCodes(col *evid.Collector, offset int) {
	for i, c := range exitCases() {
		if !evid.Mine(offset + i) {
			continue
		}
		judgeExit(col, c)
	}
}

func judgeExit(col *evid.Collector, c exitCase) {
	env, _, err := newSandbox(nil, 5)
	if err != nil {
		col.Fail("exit: " + err.Error())
		return
	}
	var params lua.LTable
	params.RawSetString("remoteName", lua.LString("origin"))
	code, rerr := env.RunScript(c.Script, params)
	env.Cleanup()
	col.Inc("evaluations")
	col.Inc("traces_validated_against_impl")
	col.Inc("exit_scripts")
	failed := code != 0 || rerr != nil
	cls := "non-number"
	if c.AnyNumber {
		cls = "number"
	}
	if failed {
		col.Inc("exit_failed")
	} else {
		col.Inc("exit_succeeded")
	}
	col.Class("exit/%s/%s/code=%d/err=%v", cls, map[bool]string{true: "failed", false: "success"}[failed], code, rerr != nil)
	switch {
	case !c.AnyNumber && !failed:
		col.Violation("C20:non-number-result-treated-as-success", fmt.Sprintf("script %q returns no number but RunScript gives exit code 0 and no error", c.Script), replayCase{Kind: "exit", Exit: &c})
	case !c.AnyNumber && rerr == nil && code != 1:
		col.Class("exit/non-number/code-not-1=%d", code)
	case c.Want0 && failed:
		col.Violation("C20:zero-result-treated-as-failure", fmt.Sprintf("script %q returns 0 but RunScript gives code %d err %v", c.Script, code, rerr), replayCase{Kind: "exit", Exit: &c})
	}
}

func overrunRetries() int {
	if evid.Thorough() {
		return 2
	}
	return 1
}
