package c20

import (
	"fmt"
	"os"
	"runtime/debug"
	"sort"
	"strings"
	"sync"

	"github.com/gittuf/gittuf/pkg/gitinterface"
	"github.com/gittuf/gittuf/verif/evid"
	lua "github.com/yuin/gopher-lua"
)

var debugReach = false

type reachResult struct {
	nodes, edges          int64
	rounds                int
	generations           int
	luaVals               int
	calls, callok         int64
	shapes                int
	fixpoint              bool
	kinds                 map[string]int
	findings              []finding
	luaFnsPristine        []string
	luaFnsAfter           int
	opaque                map[string]string
	pristineNodes         int64
	pristineEdges         int64
	luaReachablePaths     []string
	dropped               int
	notLuaReachable       int
	notLuaReachableSample []string
}

// reachability computes the closure. repo may be nil (then API callees hit a
// nil repository; used only by the detection self-tests).
func reachability(db *refDB, repo *gitinterface.Repository, maxRounds int) (*reachResult, error) {
	env, L, err := newSandbox(repo, 3600)
	if err != nil {
		return nil, err
	}
	defer env.Cleanup()
	// the closure allocates and drops tens of thousands of coroutine stacks
	defer debug.SetGCPercent(debug.SetGCPercent(400))
	G := L.Get(lua.GlobalsIndex).(*lua.LTable)
	res := &reachResult{}

	// round 0, Go side only: raw closure of the pristine sandbox
	w := newWalker(db, env)
	for _, r := range stateRoots(L) {
		w.visit(r.v, r.path)
	}
	w.run()
	res.pristineNodes, res.pristineEdges = w.nodes(), w.edges
	old := map[any]bool{}
	for v := range w.seenObj {
		old[v] = true
	}
	for _, p := range w.luaFns {
		res.luaFnsPristine = append(res.luaFnsPristine, p)
	}
	sort.Strings(res.luaFnsPristine)

	// rounds: Lua-side walk + call closure
	shapeRep := map[string]int{}        // shape -> representative index in vals
	body := map[lua.LValue]lua.LValue{} // thread or wrap-closure -> body function
	all := []wval{}
	var fold, aold []int
	pairSet, dataSet := map[int]bool{}, map[int]bool{}
	fnew, anew := []int{}, []int{}
	read := 0
	shapeOf := func(x wval) string {
		s := w.shape(x.v, old, 2)
		if b, ok := body[x.v]; ok {
			s += "<" + w.shape(b, old, 1)
			if bb, ok := body[b]; ok {
				s += "<" + w.shape(bb, old, 0) + ">"
			}
			s += ">"
		}
		return s
	}
	type batch struct{ fnew, fold, anew, aold []int }
	pending := []batch{{}}
	const batchCallees = 16
	badNames := []string{}
	for p, c := range db.class {
		if c >= vDenied {
			badNames = append(badNames, "G:"+db.name[p])
		}
	}
	tainted := func(s string) bool {
		for _, n := range badNames {
			if strings.Contains(s, n) {
				return true
			}
		}
		return strings.Contains(s, "G:0x") // Go function unknown to the reference state
	}
	for round := 0; ; round++ {
		if len(pending) == 0 {
			// next generation: callees and arguments of new shape
			for i := 0; i < len(fnew); i += batchCallees {
				j := i + batchCallees
				if j > len(fnew) {
					j = len(fnew)
				}
				pending = append(pending, batch{fnew: fnew[i:j], aold: aold, anew: anew})
			}
			for i := 0; i < len(fold) && len(anew) > 0; i += batchCallees {
				j := i + batchCallees
				if j > len(fold) {
					j = len(fold)
				}
				pending = append(pending, batch{fold: fold[i:j], anew: anew})
			}
			fold = append(fold, fnew...)
			aold = append(aold, anew...)
			fnew, anew = nil, nil
			res.generations++
			if len(pending) == 0 {
				res.fixpoint = true
				break
			}
			if res.generations > maxRounds {
				break
			}
		}
		b := pending[0]
		pending = pending[1:]
		script := walkerRound(b.fnew, b.fold, b.anew, b.aold, sortedKeys(pairSet), sortedKeys(dataSet))
		restore := muteStdout()
		code, err := env.RunScript(script, lua.LTable{})
		restore()
		if err != nil || code != 0 {
			return nil, fmt.Errorf("walker round %d failed: code=%d err=%v", round, code, err)
		}
		vals, calls, callok, _, err := readWalkerState(G, read)
		if err != nil {
			return nil, err
		}
		res.calls, res.callok = calls, callok
		read += len(vals)
		all = append(all, vals...)
		// provenance of coroutines
		for _, x := range vals {
			if x.of <= 0 || x.oa == 0 {
				continue
			}
			callee, ok := all[x.of-1].v.(*lua.LFunction)
			if !ok || !callee.IsG {
				continue
			}
			n := db.name[codePtr(callee.GFunction)]
			if n != "coroutine.create" && n != "coroutine.wrap" {
				continue
			}
			var arg lua.LValue
			if x.oa > 0 {
				arg = all[x.oa-1].v
			} else if x.oa == -7 {
				arg = G.RawGetString("__c20w").(*lua.LTable).RawGetString("inertfn")
			}
			if arg != nil {
				body[x.v] = arg
			}
		}
		dups := []wval{}
		for _, x := range vals {
			w.visit(x.v, "lua:"+x.path)
			if old[x.v] {
				res.luaReachablePaths = append(res.luaReachablePaths, x.path)
			}
			s := shapeOf(x)
			if _, ok := shapeRep[s]; ok {
				if !old[x.v] {
					dups = append(dups, x)
				}
				continue
			}
			shapeRep[s] = x.idx
			if tainted(s) {
				continue // never call, nor hand to a caller, a function the oracle rejects (os.exit and friends)
			}
			if strings.Contains(s, "G:_printregs") {
				continue // dumps the VM registers to stderr; neither called nor passed around (covered by the grammar)
			}
			anew = append(anew, x.idx)
			if fn, ok := x.v.(*lua.LFunction); ok {
				excluded := false
				for _, n := range []string{"G:print", "G:_printregs", "G:setfenv"} {
					if strings.Contains(s, n) {
						excluded = true
					}
				}
				if fn.IsG && w.db.name[codePtr(fn.GFunction)] == "" && w.api[codePtr(fn.GFunction)] == "" {
					// unknown Go function: never call it, it is reported by the oracle
					excluded = true
				}
				if !excluded {
					fnew = append(fnew, x.idx)
					isAPI := false
					for _, n := range w.api {
						if strings.Contains(s, "G:"+n) {
							isAPI = true
						}
					}
					if !fn.IsG && old[x.v] {
						isAPI = true // Lua-implemented API (strSplit)
					}
					if isAPI {
						dataSet[x.idx] = true
					} else if old[x.v] && !strings.Contains(s, "G:table.") && !strings.Contains(s, "G:string.") && !strings.Contains(s, "G:math.") {
						pairSet[x.idx] = true
					}
				}
			}
		}
		w.run()
		// fresh values whose shape is already represented have been walked and
		// judged; forget them so that the thousands of coroutine stacks they
		// hold can be collected
		if len(dups) > 0 {
			S := G.RawGetString("__c20w").(*lua.LTable)
			sv, _ := S.RawGetString("vals").(*lua.LTable)
			ss, _ := S.RawGetString("seen").(*lua.LTable)
			for _, x := range dups {
				if fn, ok := x.v.(*lua.LFunction); ok && fn.IsG {
					if f := w.judge(fn, "lua:"+x.path); f.verdict >= vDenied {
						w.finds = append(w.finds, f)
					}
				}
				if _, ok := w.seenObj[x.v]; ok {
					delete(w.seenObj, x.v)
					w.forgotten++
				}
				delete(body, x.v)
				sv.RawSetInt(x.idx, lua.LFalse)
				ss.RawSet(x.v, lua.LNil)
				all[x.idx-1].v = lua.LNil
			}
			res.dropped += len(dups)
		}
		if debugReach {
			fmt.Printf("round %d: vals=%d new shapes: fnew=%d anew=%d calls=%d\n", round, len(vals), len(fnew), len(anew), calls)
		}
		res.rounds = round + 1
	}
	// hide the walker's own bookkeeping before judging (it is not part of the sandbox)
	res.luaVals = len(all)
	res.shapes = len(shapeRep)
	res.nodes, res.edges = w.nodes(), w.edges
	res.kinds = w.kinds
	res.findings = w.classify()
	res.luaFnsAfter = len(w.luaFns)
	res.opaque = w.opaque
	// which pristine objects can a script not reach (only the Go-side raw walk sees them)?
	luaSeen := map[any]bool{}
	for _, x := range all {
		luaSeen[x.v] = true
	}
	for v, p := range w.seenObj {
		if old[v] && !luaSeen[v] {
			res.notLuaReachable++
			if len(res.notLuaReachableSample) < 8 {
				res.notLuaReachableSample = append(res.notLuaReachableSample, p)
			}
		}
	}
	sort.Strings(res.notLuaReachableSample)
	return res, nil
}

// muteStdout silences print of scripts (it writes to os.Stdout); nestable
// and safe to use from the phases that run side by side.
var muteState struct {
	sync.Mutex
	n    int
	orig *os.File
	null *os.File
}

func muteStdout() func() {
	muteState.Lock()
	defer muteState.Unlock()
	if muteState.n == 0 {
		f, err := os.OpenFile(os.DevNull, os.O_WRONLY, 0)
		if err != nil {
			return func() {}
		}
		muteState.orig, muteState.null = os.Stdout, f
		os.Stdout = f
	}
	muteState.n++
	return func() {
		muteState.Lock()
		defer muteState.Unlock()
		muteState.n--
		if muteState.n == 0 {
			os.Stdout = muteState.orig
			muteState.null.Close()
		}
	}
}

func sortedKeys(m map[int]bool) []int {
	out := make([]int, 0, len(m))
	for k := range m {
		out = append(out, k)
	}
	sort.Ints(out)
	return out
}

// reportFindings turns the classified functions into classes and violations.
func reportFindings(col *evid.Collector, part string, fs []finding, replay any) (bad int) {
	for _, f := range fs {
		switch f.verdict {
		case vAllowed, vAPI, vGuard:
			col.Class("%s/function/%s/%s", part, f.verdict, f.name)
		case vDenied:
			bad++
			col.Violation("C20:reachable-denied:"+f.name, fmt.Sprintf("deny-set function %s is reachable at %s", f.name, f.path), replay)
		case vNotAllowed:
			bad++
			col.Violation("C20:reachable-not-allow-listed:"+f.name, fmt.Sprintf("library function %s, outside the allow-list, is reachable at %s", f.name, f.path), replay)
		case vUnknown:
			bad++
			col.Violation("C20:reachable-unknown-go-function", fmt.Sprintf("a Go function that is neither an allow-listed library function nor a registered API is reachable at %s", f.path), replay)
		}
	}
	return bad
}
