package c20

import (
	"context"
	"fmt"
	"reflect"
	"testing"
	"time"
	"unsafe"

	"github.com/gittuf/gittuf/internal/luasandbox"
	lsopts "github.com/gittuf/gittuf/internal/luasandbox/options/luasandbox"
	lua "github.com/yuin/gopher-lua"
)

func lstateOfP(env *luasandbox.LuaEnvironment) *lua.LState {
	f := reflect.ValueOf(env).Elem().FieldByName("lState")
	return *(**lua.LState)(unsafe.Pointer(f.UnsafeAddr()))
}

func TestProbe(t *testing.T) {
	t0 := time.Now()
	for i := 0; i < 1000; i++ {
		env, err := luasandbox.NewLuaEnvironment(context.Background(), nil, lsopts.WithLuaTimeout(1))
		if err != nil {
			t.Fatal(err)
		}
		env.Cleanup()
	}
	fmt.Println("1000 envs", time.Since(t0))
	env, _ := luasandbox.NewLuaEnvironment(context.Background(), nil, lsopts.WithLuaTimeout(1))
	L := lstateOfP(env)
	code, err := env.RunScript(`x = getfenv(0); string.find = 5; table.insert(string, "q"); y = ("x").__index; return 7`, lua.LTable{})
	fmt.Println(code, err, L.GetGlobal("x") == L.Get(lua.GlobalsIndex), L.GetGlobal("string").(*lua.LTable).RawGetString("find"), L.GetGlobal("string").(*lua.LTable).RawGetInt(1), L.GetGlobal("y") == L.GetGlobal("string"))
	code, err = env.RunScript(`string.zzz = 5 return 1`, lua.LTable{})
	fmt.Println(code, err)
}
