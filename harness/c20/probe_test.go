package c20

import (
	"fmt"
	"runtime"
	"testing"
	"time"

	lua "github.com/yuin/gopher-lua"
)

func TestProbe(t *testing.T) {
	for _, s := range []string{"local function f() return f() end return f()"} {
		env, _, _ := newSandbox(nil, 1)
		done := make(chan string)
		t0 := time.Now()
		go func() {
			code, err := env.RunScript(s, lua.LTable{})
			done <- fmt.Sprint(code, len(fmt.Sprint(err)), time.Since(t0))
		}()
		for i := 0; i < 30; i++ {
			select {
			case r := <-done:
				fmt.Println(r)
				return
			case <-time.After(10 * time.Second):
				var m runtime.MemStats
				runtime.ReadMemStats(&m)
				fmt.Println("heap MB", m.HeapAlloc>>20, time.Since(t0))
			}
		}
	}
}
