// Package c20 checks property C20: hook scripts stay inside the sandbox API
// and stop within their timeout.
//
//   - reach_test.go / graph_test.go / walker_test.go: explicit-state closure
//     over the Lua values reachable from the globals of a sandbox built by the
//     real NewLuaEnvironment (Go-side raw walk + Lua-side walk and call closure
//     executed through the real RunScript), judged against a deny set and an
//     allow-list taken from the statement.
//   - libwrite_test.go: every way of writing every key of the library tables.
//   - grammar_test.go: bounded-exhaustive escape-attempt scripts.
//   - nonterm_test.go: non-terminating scripts against the hook timeout
//     (subprocess per script), exit code of non-number results.
//   - hooks_test.go: hook selection by principal and stage through the real
//     InvokeHooksForStage on a real repository.
//   - api_test.go: registered APIs leave the repository unchanged.
package c20

import (
	"context"
	"fmt"
	"os"
	"strings"
	"sync"
	"testing"
	"time"

	"github.com/gittuf/gittuf/internal/tuf"
	"github.com/gittuf/gittuf/verif/evid"
	"github.com/gittuf/gittuf/verif/gitback"
	"github.com/gittuf/gittuf/verif/keys"
	"github.com/gittuf/gittuf/verif/world"
	lua "github.com/yuin/gopher-lua"
)

type replayCase struct {
	Kind    string        `json:"kind"` // script | escape | libwrite | nonterm | exit | hooks | reach
	Script  string        `json:"script,omitempty"`
	Write   *writeAttempt `json:"write,omitempty"`
	NonTerm *ntScript     `json:"nonterm,omitempty"`
	Exit    *exitCase     `json:"exit,omitempty"`
	Hooks   *hookCase     `json:"hooks,omitempty"`
}

func TestC20(t *testing.T) {
	if jp := os.Getenv(childEnv); jp != "" {
		childMain(t, jp)
		return
	}
	col := evid.New("C20")
	defer col.Write()

	db, err := buildRefDB()
	if err != nil {
		col.Fail("reference state: " + err.Error())
		return
	}
	if rf := evid.ReplayFile(); rf != "" {
		replay(t, col, db, rf)
		return
	}

	depth := 2
	if evid.Thorough() {
		depth = 3
	}
	col.Rule("(a) value graph: every Lua value reachable from the globals and type metatables of a sandbox built by NewLuaEnvironment, " +
		"by raw table fields and keys, metatables, function environments, upvalues, prototype constants, userdata payloads, and by applying every reachable function " +
		"to (), every 1- and 2-tuple over the inert data {0,1,2,\"x\",true,{},f} and every reachable value, to a fixpoint over value shapes; a state is a distinct value. " +
		"(b) every library table x every existing key, a fresh key and slot 1 x every write method; " +
		"(c) escape scripts: atom x operator chains up to the depth bound (chains whose value became nil are not extended); " +
		"(d) non-termination scripts by kind with hook timeout 1 s; (e) scripts by kind of returned value; " +
		"(f) multisets of up to N hooks, each with a non-empty stage set and a subset of 3 principals, x 4 invoking keys x 2 stages; (g) registered API x argument.")
	col.Assume("the Lua-side walker never calls print/_printregs/setfenv directly (output only / would change the walker's own environment); the grammar does")
	col.Assume("registered repository APIs are applied to inert data only in the call closure (they coerce every argument to a string)")
	col.Assume("memory exhaustion is out of scope: the property bounds time; children run under a 6 GiB address-space cap")
	col.Assume("wall-clock oracle: RunScript must return within hook timeout 1 s + 4 s margin, measured in a dedicated subprocess")
	col.Bound("tier", evid.Tier())

	si, sn := evid.Shard()
	tPhase := time.Now()
	phase := func(name string) {
		col.Add("max_phase_ms_"+name, time.Since(tPhase).Milliseconds())
		tPhase = time.Now()
	}

	// C20_PHASES (debugging aid): comma-separated subset of
	// nonterm,exit,libwrite,reach,api,hooks,grammar; default all
	want := func(name string) bool {
		sel := os.Getenv("C20_PHASES")
		if sel == "" {
			return true
		}
		for _, p := range strings.Split(sel, ",") {
			if p == name {
				return true
			}
		}
		col.NotExhaustive("phase " + name + " skipped by C20_PHASES")
		return false
	}

	// 1. non-termination first (timing is least disturbed while the other phases have not started everywhere)
	if want("nonterm") {
		checkNonTermination(col, 0)
	}
	phase("nonterm")
	// 2. exit codes
	if want("exit") {
		checkExitCodes(col, 3)
	}
	// 3. library table writes
	if want("libwrite") {
		checkLibWrites(col, db)
	}
	phase("exit_libwrite")
	// 4.-7. the remaining phases run side by side: the hook lane waits for git
	// processes, the closure and the grammar are CPU-bound
	var wg sync.WaitGroup
	par := func(name string, f func()) {
		wg.Add(1)
		go func() {
			defer wg.Done()
			t0 := time.Now()
			f()
			col.Add("max_phase_ms_"+name, time.Since(t0).Milliseconds())
		}()
	}
	if si == sn-1 && want("reach") {
		par("reach", func() { checkReachability(t, col, db) })
	}
	if si == (2*sn-2)%sn && want("api") {
		par("api_hookresults", func() {
			checkAPIsReadOnly(t, col)
			checkHookResults(t, col)
		})
	}
	if want("hooks") {
		par("hooks", func() { checkHookSelection(t, col, 5) })
	}
	if want("grammar") {
		par("grammar", func() { exploreGrammar(col, db, depth) })
	}
	wg.Wait()
}

func checkReachability(t *testing.T, col *evid.Collector, db *refDB) {
	r := gitback.New(t, false)
	tree, _ := r.EmptyTree()
	if c, err := r.PutCommit(tree, nil, "init\n", nil); err == nil {
		_ = r.SetReference("refs/heads/main", c)
	}
	t0 := time.Now()
	res, err := reachability(db, r.Repository, 10)
	if err != nil {
		col.Fail("reachability: " + err.Error())
		return
	}
	col.Add("states", res.nodes)
	col.Add("transitions", res.edges)
	col.Add("evaluations", int64(res.rounds))
	col.Add("traces_validated_against_impl", int64(res.rounds))
	col.Add("reach_lua_side_values", int64(res.luaVals))
	col.Add("reach_calls_applied", res.calls)
	col.Add("reach_calls_succeeded", res.callok)
	col.Add("reach_value_shapes", int64(res.shapes))
	col.Add("reach_pristine_states", res.pristineNodes)
	col.Add("reach_pristine_transitions", res.pristineEdges)
	col.Add("reach_rounds", int64(res.rounds))
	col.Add("reach_not_script_reachable", int64(res.notLuaReachable))
	col.Bound("reach_seconds", int(time.Since(t0).Seconds()))
	for k, n := range res.kinds {
		col.Add("reach_kind_"+k, int64(n))
		col.Class("reach/kind/%s", k)
	}
	if !res.fixpoint {
		col.NotExhaustive(fmt.Sprintf("call closure did not reach a fixpoint in %d rounds", res.rounds))
	}
	bad := reportFindings(col, "reach", res.findings, replayCase{Kind: "reach"})
	if bad == 0 {
		col.Inc("reach_functions_all_allowed")
	}
	for _, f := range res.findings {
		if f.verdict <= vGuard {
			col.Inc("reach_functions_judged_ok")
		}
	}
	// Lua closures present before any script ran must be the Lua-implemented APIs
	luaAPIs := map[string]bool{"G.strSplit": true}
	for _, p := range res.luaFnsPristine {
		if !luaAPIs[p] {
			col.Violation("C20:reachable-unknown-lua-function", "a Lua closure that is not a registered API exists in a fresh sandbox at "+p, replayCase{Kind: "reach"})
		} else {
			col.Class("reach/function/lua-api/%s", p)
		}
	}
	for typ, p := range res.opaque {
		// Go payloads of userdata: only the string library's match state is expected
		if typ == "*lua.strMatchData" {
			col.Class("reach/userdata-payload/%s", typ)
			continue
		}
		col.Violation("C20:reachable-opaque-go-value:"+typ, "userdata carrying a Go value of type "+typ+" reachable at "+p, replayCase{Kind: "reach"})
	}
	col.Sample(map[string]any{"reach": "summary", "states": res.nodes, "transitions": res.edges, "rounds": res.rounds, "calls": res.calls,
		"shapes": res.shapes, "fixpoint": res.fixpoint, "only_raw_reachable": res.notLuaReachableSample})
	n := len(res.luaReachablePaths)
	if n > 6 {
		n = 6
	}
	col.Sample(map[string]any{"reach": "script-side paths", "paths": res.luaReachablePaths[:n]})
}

// checkHookResults: through the real InvokeHooksForStage, a hook returning a
// non-number yields exit code 1 and a non-terminating hook yields an error.
func checkHookResults(t *testing.T, col *evid.Collector) {
	w, err := newHookWorld(t)
	if err != nil {
		col.Fail("hookresults: " + err.Error())
		return
	}
	for _, c := range []struct {
		name, src string
		timeout   int
		wantCode  int
		wantErr   bool
	}{
		{"number", "return 7", 5, 7, false},
		{"string", `return "ok"`, 5, 1, false},
		{"nothing", "local x = 1", 5, 1, false},
		{"table", "return {0}", 5, 1, false},
		{"loop", "while true do end", 1, 0, true},
		{"error", `error("x")`, 5, 0, true},
	} {
		R := keys.Get("R")
		alice := keys.Get("K0").TUFKey()
		w.version++
		root := world.Root(w.version, []tuf.Principal{R.TUFKey()}, 1, []tuf.Principal{R.TUFKey()}, 1)
		root.Principals[alice.ID()] = alice
		id, err := w.repo.WriteBlob([]byte(c.src))
		if err != nil {
			col.Fail("hookresults: " + err.Error())
			return
		}
		if _, err := root.AddHook([]tuf.HookStage{tuf.HookStagePreCommit}, "h", []string{alice.ID()}, map[string]string{"gitBlob": id.String(), "sha256": ""}, tuf.HookEnvironmentLua, c.timeout); err != nil {
			col.Fail("hookresults: " + err.Error())
			return
		}
		st := world.State(world.Envelope(root, R), world.Envelope(world.Targets(w.version, nil, nil), R), nil)
		if _, err := world.PublishPolicy(w.repo, st, false); err != nil {
			col.Fail("hookresults: " + err.Error())
			return
		}
		t0 := time.Now()
		codes, ierr := w.g.InvokeHooksForStage(context.Background(), keys.Signer{K: keys.Get("K0")}, tuf.HookStagePreCommit)
		el := time.Since(t0)
		col.Inc("evaluations")
		col.Inc("hook_result_cases")
		col.Class("hookresult/%s/code=%v/err=%v", c.name, codes["h"], ierr != nil)
		what := fmt.Sprintf("hook script %q via InvokeHooksForStage: codes=%v err=%v in %v", c.src, codes, ierr, el.Round(time.Millisecond))
		switch {
		case c.wantErr && ierr == nil && codes["h"] == 0:
			col.Violation("C20:failing-hook-reported-success:"+c.name, what, replayCase{Kind: "script", Script: c.src})
		case !c.wantErr && ierr != nil && strings.Contains(ierr.Error(), "context deadline exceeded"):
			// a terminating script ran into the hook timeout: the worker was
			// starved of CPU (machine overloaded); no verdict for this case
			col.Inc("hook_result_cases_starved_no_verdict")
		case !c.wantErr && ierr != nil:
			col.Violation("C20:hook-invocation-unexpected-error:"+c.name, what, replayCase{Kind: "script", Script: c.src})
		case !c.wantErr && c.wantCode != 0 && codes["h"] == 0:
			col.Violation("C20:non-number-result-treated-as-success", what, replayCase{Kind: "script", Script: c.src})
		case !c.wantErr && c.wantCode == 7 && codes["h"] != 7:
			col.Violation("C20:numeric-result-not-propagated", what, replayCase{Kind: "script", Script: c.src})
		}
	}
}

func replay(t *testing.T, col *evid.Collector, db *refDB, path string) {
	var rc replayCase
	if b, err := os.ReadFile(path); err == nil && !strings.HasPrefix(strings.TrimSpace(string(b)), "{") {
		// a bare Lua file: confinement verdict and timing verdict for that script
		rc = replayCase{Kind: "script", Script: string(b)}
	} else if err := evid.LoadReplay(path, &rc); err != nil {
		col.Fail("replay: " + err.Error())
		return
	}
	switch rc.Kind {
	case "libwrite":
		changed, raised, detail, err := runWriteAttempt(*rc.Write)
		if err != nil {
			col.Fail(err.Error())
			return
		}
		col.Inc("evaluations")
		fmt.Printf("replay libwrite %s: changed=%v raised=%v %s\n", firstLine(rc.Write.Script), changed, raised, detail)
		if changed {
			col.Violation("C20:library-table-modified:"+writeCause(*rc.Write), "library table modified: "+firstLine(rc.Write.Script), rc)
		}
	case "nonterm":
		hk := 30 * time.Second
		judgeNonTerm(col, *rc.NonTerm, hk)
	case "exit":
		judgeExit(col, *rc.Exit)
	case "hooks":
		w, err := newHookWorld(t)
		if err != nil {
			col.Fail(err.Error())
			return
		}
		if err := w.judge(col, *rc.Hooks); err != nil {
			col.Fail(err.Error())
		}
	case "reach":
		checkReachability(t, col, db)
	case "escape", "script":
		// timing verdict first, in a child (an arbitrary script may never come back);
		// the confinement verdict in-process only if the script returned in time
		if rc.Kind == "script" {
			before := col.NumViolations()
			judgeNonTerm(col, ntScript{Kind: "replayed-script", Family: "vm", Script: rc.Script}, 30*time.Second)
			if col.NumViolations() > before {
				fmt.Println("replay script: did not return in time; confinement walk skipped")
				return
			}
		}
		o, err := runEscapeScript(db, rc.Script, 0)
		if err != nil {
			col.Fail(err.Error())
			return
		}
		col.Inc("evaluations")
		fmt.Printf("replay script: code=%d err=%v nodes=%d edges=%d denied=%d\n", o.code, o.err, o.nodes, o.edges, len(o.findings))
		reportFindings(col, "escape", o.findings, rc)
	default:
		col.Fail("replay: unknown kind " + rc.Kind)
	}
	_ = lua.LNil
}
