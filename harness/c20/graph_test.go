package c20

// Value graph of a gopher-lua state: explicit-state search whose states are Lua
// values. The walker uses Go-side raw access (no metamethods, no __metatable
// masking), so it over-approximates what a script can observe; the Lua-side
// walker (walker_test.go) supplies the edges only a running script can
// produce (results of calls).

import (
	"context"
	"fmt"
	"reflect"
	"sort"
	"strings"
	"unsafe"

	"github.com/gittuf/gittuf/internal/luasandbox"
	lsopts "github.com/gittuf/gittuf/internal/luasandbox/options/luasandbox"
	"github.com/gittuf/gittuf/pkg/gitinterface"
	lua "github.com/yuin/gopher-lua"
)

// lstateOf reads the unexported *lua.LState of a sandbox (no hook in /repo is
// needed: the field is read through reflect + unsafe).
func lstateOf(env *luasandbox.LuaEnvironment) (*lua.LState, error) {
	v := reflect.ValueOf(env)
	if v.Kind() != reflect.Ptr || v.IsNil() {
		return nil, fmt.Errorf("nil sandbox")
	}
	f := v.Elem().FieldByName("lState")
	if !f.IsValid() || f.Type() != reflect.TypeOf((*lua.LState)(nil)) {
		return nil, fmt.Errorf("luasandbox.LuaEnvironment has no field lState of type *lua.LState any more")
	}
	return *(**lua.LState)(unsafe.Pointer(f.UnsafeAddr())), nil
}

func newSandbox(repo *gitinterface.Repository, timeout int) (*luasandbox.LuaEnvironment, *lua.LState, error) {
	env, err := luasandbox.NewLuaEnvironment(context.Background(), repo, lsopts.WithLuaTimeout(timeout))
	if err != nil {
		return nil, nil, err
	}
	L, err := lstateOf(env)
	if err != nil {
		return nil, nil, err
	}
	return env, L, nil
}

func codePtr(fn lua.LGFunction) uintptr { return reflect.ValueOf(fn).Pointer() }

// ---------------------------------------------------------------------------
// Reference database: every Go function of a fully opened gopher-lua state,
// by code pointer, classified from the property statement (independent of
// what the sandbox happens to leave in place).

type verdict int

const (
	vAllowed    verdict = iota // allow-listed pure library function
	vAPI                       // registered gittuf API
	vGuard                     // the sandbox's own write-protection handler
	vDenied                    // named in the statement's deny set
	vNotAllowed                // known library function outside the allow-list
	vUnknown                   // Go function that is none of the above
)

func (v verdict) String() string {
	return [...]string{"allowed", "api", "guard", "DENIED", "NOT-ALLOW-LISTED", "UNKNOWN-GO-FUNCTION"}[v]
}

type refDB struct {
	name  map[uintptr]string
	class map[uintptr]verdict
}

// The allow-list, written from the statement ("allow-listed pure libraries"):
// the pure part of the base library plus table, string, math and coroutine
// without the members that allocate unboundedly, dump code or touch host state.
var baseAllowed = map[string]bool{
	"assert": true, "error": true, "getfenv": true, "ipairs": true, "next": true, "pairs": true,
	"pcall": true, "print": true, "select": true, "setfenv": true, "tonumber": true, "tostring": true,
	"type": true, "unpack": true, "xpcall": true, "newproxy": true, "_printregs": true,
}

// deny set of the statement: filesystem, processes, environment, code
// loading, metatable and raw-access primitives (plus everything in os, io,
// debug, package, channel).
var baseDenied = map[string]bool{
	"dofile": true, "load": true, "loadfile": true, "loadstring": true, "require": true, "module": true,
	"setmetatable": true, "getmetatable": true, "rawget": true, "rawset": true, "rawequal": true,
	"collectgarbage": true,
}

var libNotAllowed = map[string]bool{"string.rep": true, "math.randomseed": true}
var libDenied = map[string]bool{"string.dump": true}

func buildRefDB() (*refDB, error) {
	db := &refDB{name: map[uintptr]string{}, class: map[uintptr]verdict{}}
	R := lua.NewState() // all libraries open
	defer R.Close()
	put := func(name string, fn *lua.LFunction, v verdict) {
		if fn == nil || !fn.IsG {
			return
		}
		p := codePtr(fn.GFunction)
		if old, ok := db.class[p]; ok && old != v {
			// the same Go function under two names with different classes: keep the stricter
			if v < old {
				return
			}
		}
		db.name[p] = name
		db.class[p] = v
	}
	G := R.Get(lua.GlobalsIndex).(*lua.LTable)
	var missing []string
	G.ForEach(func(k, v lua.LValue) {
		ks, ok := k.(lua.LString)
		if !ok {
			return
		}
		name := string(ks)
		switch x := v.(type) {
		case *lua.LFunction:
			switch {
			case baseAllowed[name]:
				put(name, x, vAllowed)
			case baseDenied[name]:
				put(name, x, vDenied)
			default:
				put(name, x, vNotAllowed)
			}
		case *lua.LTable:
			if name == "_G" {
				return
			}
			x.ForEach(func(k2, v2 lua.LValue) {
				fn, ok := v2.(*lua.LFunction)
				if !ok {
					return
				}
				full := name + "." + lua.LVAsString(k2)
				switch name {
				case "table", "string", "math", "coroutine":
					switch {
					case libDenied[full]:
						put(full, fn, vDenied)
					case libNotAllowed[full]:
						put(full, fn, vNotAllowed)
					default:
						put(full, fn, vAllowed)
					}
				default: // os io debug package channel
					put(full, fn, vDenied)
				}
			})
		}
	})
	for n := range baseAllowed {
		if _, ok := G.RawGetString(n).(*lua.LFunction); !ok {
			missing = append(missing, n)
		}
	}
	for n := range baseDenied {
		if _, ok := G.RawGetString(n).(*lua.LFunction); !ok {
			missing = append(missing, n)
		}
	}
	if len(missing) > 0 {
		return nil, fmt.Errorf("reference state lacks %v", missing)
	}
	// package.loaders / package.preload members
	if pkg, ok := G.RawGetString("package").(*lua.LTable); ok {
		if ld, ok := pkg.RawGetString("loaders").(*lua.LTable); ok {
			ld.ForEach(func(k, v lua.LValue) {
				if fn, ok := v.(*lua.LFunction); ok {
					put("package.loaders["+lua.LVAsString(k)+"]", fn, vDenied)
				}
			})
		}
	}
	// helper closures of the allow-listed libraries, obtained by calling them
	helper := func(name, src string) error {
		if err := R.DoString("__h = " + src); err != nil {
			return fmt.Errorf("reference helper %s: %v", name, err)
		}
		fn, ok := R.GetGlobal("__h").(*lua.LFunction)
		if !ok || !fn.IsG {
			return fmt.Errorf("reference helper %s is not a Go function", name)
		}
		put(name, fn, vAllowed)
		return nil
	}
	for _, h := range [][2]string{
		{"pairs.iterator", "pairs({})"},
		{"ipairs.iterator", "ipairs({})"},
		{"string.gmatch.iterator", `string.gmatch("x","x")`},
		{"coroutine.wrap.resumer", "coroutine.wrap(function() end)"},
	} {
		if err := helper(h[0], h[1]); err != nil {
			return nil, err
		}
	}
	// io.lines/file methods etc. are only reachable through io.*; they stay unknown => flagged if ever reached
	return db, nil
}

// ---------------------------------------------------------------------------

type finding struct {
	verdict verdict
	name    string // reference name or "?"
	path    string
}

type walker struct {
	db      *refDB
	api     map[uintptr]string // Go API implementations of this sandbox
	seenObj map[any]string     // identity-bearing values -> first path
	seenDat map[string]bool    // inert data values
	edges   int64
	kinds   map[string]int
	finds   []finding
	// guard positions: functions found as __newindex of a metatable whose
	// __metatable is the string "protected"
	guardOK   map[*lua.LFunction]bool
	luaFns    map[*lua.FunctionProto]string // Lua closures by prototype -> path
	opaque    map[string]string             // Go type of userdata payloads -> path
	queue     []qitem
	forgotten int64
}

type qitem struct {
	v    lua.LValue
	path string
}

func newWalker(db *refDB, env *luasandbox.LuaEnvironment) *walker {
	w := &walker{db: db, api: map[uintptr]string{}, seenObj: map[any]string{}, seenDat: map[string]bool{},
		kinds: map[string]int{}, guardOK: map[*lua.LFunction]bool{}, luaFns: map[*lua.FunctionProto]string{}, opaque: map[string]string{}}
	if env != nil {
		for _, a := range env.GetAPIs() {
			if g, ok := a.(*luasandbox.GoAPI); ok {
				w.api[codePtr(g.Implementation)] = g.Name
			}
		}
	}
	return w
}

func (w *walker) nodes() int64 { return int64(len(w.seenObj)+len(w.seenDat)) + w.forgotten }

// visit records the edge to v and enqueues v if new. Returns true if new.
func (w *walker) visit(v lua.LValue, path string) bool {
	w.edges++
	switch x := v.(type) {
	case *lua.LNilType:
		return false
	case lua.LBool, lua.LNumber:
		k := fmt.Sprintf("%s:%v", v.Type(), v)
		if !w.seenDat[k] {
			w.seenDat[k] = true
			w.kinds["data"]++
			return true
		}
		return false
	case lua.LString:
		k := "s:" + string(x)
		if !w.seenDat[k] {
			w.seenDat[k] = true
			w.kinds["data"]++
			return true
		}
		return false
	}
	if v == lua.LNil {
		return false
	}
	if _, ok := w.seenObj[v]; ok {
		return false
	}
	w.seenObj[v] = path
	w.queue = append(w.queue, qitem{v, path})
	return true
}

func short(p string) string {
	if len(p) > 160 {
		return p[:70] + "..." + p[len(p)-80:]
	}
	return p
}

func (w *walker) run() {
	for len(w.queue) > 0 {
		it := w.queue[0]
		w.queue = w.queue[1:]
		p := short(it.path)
		switch x := it.v.(type) {
		case *lua.LTable:
			w.kinds["table"]++
			x.ForEach(func(k, v lua.LValue) {
				ks := lua.LVAsString(k)
				if _, ok := k.(lua.LString); !ok {
					if _, ok := k.(lua.LNumber); ok {
						ks = "[" + ks + "]"
					} else {
						ks = "[<" + k.Type().String() + ">]"
					}
				}
				w.visit(k, p+".<key "+ks+">")
				w.visit(v, p+"."+ks)
			})
			if mt, ok := x.Metatable.(*lua.LTable); ok {
				w.visit(mt, "metatable("+p+")")
				if s, ok := mt.RawGetString("__metatable").(lua.LString); ok && s == "protected" {
					if g, ok := mt.RawGetString("__newindex").(*lua.LFunction); ok && g.IsG {
						w.guardOK[g] = true
					}
				}
			}
		case *lua.LFunction:
			if x.Env != nil {
				w.visit(x.Env, "fenv("+p+")")
			}
			for i, uv := range x.Upvalues {
				if uv != nil {
					w.visit(uv.Value(), fmt.Sprintf("upvalue(%s,%d)", p, i+1))
				}
			}
			if x.IsG {
				w.kinds["gofunction"]++
			} else {
				w.kinds["luafunction"]++
				if x.Proto != nil {
					if _, ok := w.luaFns[x.Proto]; !ok {
						w.luaFns[x.Proto] = p
					}
					w.walkProto(x.Proto, p)
				}
			}
		case *lua.LUserData:
			w.kinds["userdata"]++
			if mt, ok := x.Metatable.(*lua.LTable); ok {
				w.visit(mt, "metatable("+p+")")
			}
			if x.Env != nil {
				w.visit(x.Env, "fenv("+p+")")
			}
			if x.Value != nil {
				if lv, ok := x.Value.(lua.LValue); ok {
					w.visit(lv, "payload("+p+")")
				} else {
					t := fmt.Sprintf("%T", x.Value)
					if _, ok := w.opaque[t]; !ok {
						w.opaque[t] = p
					}
				}
			}
		case *lua.LState:
			w.kinds["thread"]++
			if x.Env != nil {
				w.visit(x.Env, "fenv("+p+")")
			}
		default:
			w.kinds["other:"+it.v.Type().String()]++
			w.finds = append(w.finds, finding{vDenied, "value of type " + it.v.Type().String(), p})
		}
	}
}

func (w *walker) walkProto(pr *lua.FunctionProto, p string) {
	for i, c := range pr.Constants {
		w.visit(c, fmt.Sprintf("const(%s,%d)", p, i))
	}
	for _, sub := range pr.FunctionPrototypes {
		w.walkProto(sub, p)
	}
}

// classify judges every Go function seen so far (call after run()).
func (w *walker) classify() []finding {
	out := append([]finding{}, w.finds...)
	for v, path := range w.seenObj {
		fn, ok := v.(*lua.LFunction)
		if !ok || !fn.IsG {
			continue
		}
		out = append(out, w.judge(fn, path))
	}
	sort.Slice(out, func(i, j int) bool {
		if out[i].verdict != out[j].verdict {
			return out[i].verdict > out[j].verdict
		}
		if out[i].name != out[j].name {
			return out[i].name < out[j].name
		}
		return out[i].path < out[j].path
	})
	return out
}

func (w *walker) judge(fn *lua.LFunction, path string) finding {
	p := codePtr(fn.GFunction)
	if n, ok := w.api[p]; ok {
		return finding{vAPI, n, path}
	}
	if c, ok := w.db.class[p]; ok {
		return finding{c, w.db.name[p], path}
	}
	if w.guardOK[fn] {
		return finding{vGuard, "protectModule.__newindex", path}
	}
	return finding{vUnknown, "?", path}
}

// shape is the abstraction under which the call closure reaches its fixpoint:
// values that already existed before the walker ran are identified by
// identity, freshly allocated ones by their structure (Go code pointer,
// prototype, key set, metatable) to nesting depth 2.
func (w *walker) shape(v lua.LValue, old map[any]bool, depth int) string {
	switch x := v.(type) {
	case lua.LString:
		return "s"
	case lua.LNumber:
		return "n"
	case lua.LBool:
		return "b"
	case *lua.LNilType:
		return "nil"
	case *lua.LFunction:
		if !x.IsG {
			if old[v] {
				return fmt.Sprintf("F@%p/L", x)
			}
			return fmt.Sprintf("L:%p", x.Proto)
		}
		p := codePtr(x.GFunction)
		n := w.db.name[p]
		if n == "" {
			n = w.api[p]
		}
		if n == "" {
			n = fmt.Sprintf("%#x", p)
		}
		if old[v] {
			return fmt.Sprintf("F@%p/G:%s", x, n)
		}
		if depth <= 0 {
			return "G:" + n
		}
		ups := []string{}
		for _, uv := range x.Upvalues {
			if uv != nil {
				ups = append(ups, w.shape(uv.Value(), old, depth-1))
			}
		}
		return "G:" + n + "[" + strings.Join(ups, ",") + "]"
	case *lua.LTable:
		if old[v] {
			return fmt.Sprintf("T@%p", x)
		}
		if depth <= 0 {
			return "T"
		}
		parts := []string{}
		x.ForEach(func(k, val lua.LValue) {
			ks := k.Type().String()
			if s, ok := k.(lua.LString); ok {
				ks = string(s)
				if len(ks) > 12 {
					ks = "str"
				}
			}
			parts = append(parts, ks+"="+w.shape(val, old, depth-1))
		})
		sort.Strings(parts)
		if len(parts) > 12 {
			parts = append(parts[:12], fmt.Sprintf("+%d", len(parts)-12))
		}
		mt := ""
		if m, ok := x.Metatable.(*lua.LTable); ok {
			mt = "|mt:" + w.shape(m, old, depth-1)
		}
		return "T{" + strings.Join(parts, ",") + mt + "}"
	case *lua.LUserData:
		if old[v] {
			return fmt.Sprintf("U@%p", x)
		}
		if m, ok := x.Metatable.(*lua.LTable); ok && depth > 0 {
			return "U|mt:" + w.shape(m, old, depth-1)
		}
		return fmt.Sprintf("U:%T", x.Value)
	case *lua.LState:
		if old[v] {
			return fmt.Sprintf("Th@%p", x)
		}
		return "Th"
	}
	return "other:" + v.Type().String()
}

// roots of a state: the globals table and the per-type metatables a script
// reaches through values (("x"):method and friends).
func stateRoots(L *lua.LState) []qitem {
	rs := []qitem{{L.Get(lua.GlobalsIndex), "G"}}
	for _, s := range []struct {
		v lua.LValue
		n string
	}{{lua.LString("x"), "string"}, {lua.LNumber(0), "number"}, {lua.LTrue, "boolean"}, {lua.LNil, "nil"},
		{L.NewFunction(func(*lua.LState) int { return 0 }), "function"}, {L, "thread"}} {
		if mt, ok := L.GetMetatable(s.v).(*lua.LTable); ok {
			rs = append(rs, qitem{mt, "typemetatable(" + s.n + ")"})
		}
	}
	if L.Env != nil {
		rs = append(rs, qitem{L.Env, "threadenv"})
	}
	return rs
}

// snapshotTable returns a canonical raw description of a table (keys, value
// identities, metatable identity) used to detect modification.
func snapshotTable(t *lua.LTable) string {
	parts := []string{}
	t.ForEach(func(k, v lua.LValue) {
		parts = append(parts, fmt.Sprintf("%s:%v=%s", k.Type(), k, ident(v)))
	})
	sort.Strings(parts)
	return strings.Join(parts, ";") + "|mt=" + ident(t.Metatable)
}

func ident(v lua.LValue) string {
	switch x := v.(type) {
	case nil:
		return "nil"
	case *lua.LNilType:
		return "nil"
	case lua.LString:
		return "s:" + string(x)
	case lua.LNumber, lua.LBool:
		return fmt.Sprintf("%s:%v", v.Type(), v)
	}
	return fmt.Sprintf("%s@%p", v.Type(), v)
}
