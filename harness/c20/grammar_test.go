package c20

import (
	"fmt"
	"strings"

	"github.com/gittuf/gittuf/verif/evid"
	lua "github.com/yuin/gopher-lua"
)

// Escape-attempt grammar. A script is an atom followed by a chain of unary
// operators; each stage is evaluated under pcall and its value is stored in a
// table the Go side inspects after the run. V stands for the previous value.

type gOp struct {
	Kind string // getfenv | setfenv | index | envread | call-<mode>
	Text string
}

type gAtom struct {
	Root string // root primitive (class name)
	Text string
}

var gAtoms = []gAtom{
	{"getfenv", "getfenv(0)"}, {"getfenv", "getfenv(1)"}, {"getfenv", "getfenv(2)"}, {"getfenv", "getfenv()"},
	{"getfenv", "getfenv(print)"}, {"getfenv", "getfenv(pcall)"}, {"getfenv", "getfenv(strSplit)"},
	{"getfenv", "getfenv(matchRegex)"}, {"getfenv", "getfenv(string.gmatch)"}, {"getfenv", "getfenv(function() end)"},
	{"string-value", `("x")`}, {"library-table", "string"}, {"library-table", "table"}, {"library-table", "math"},
	{"library-table", "coroutine"}, {"newproxy", "newproxy(true)"}, {"coroutine", "coroutine.running()"},
	{"coroutine", "coroutine.create(function() end)"}, {"coroutine", "coroutine.wrap(function() return getfenv(0) end)"},
	{"function-value", "(function() end)"}, {"function-value", "print"}, {"function-value", "getfenv"},
	{"function-value", "setfenv"}, {"function-value", "pcall"}, {"function-value", "gitGetReference"},
	{"function-value", "strSplit"}, {"gmatch-iterator", `string.gmatch("x", "x")`}, {"data", "hookParameters"},
	{"number-value", "(0)"}, {"nil-value", "nil"},
}

func gOps() []gOp {
	ops := []gOp{
		{"getfenv", "getfenv(V)"},
		{"setfenv", "setfenv(V, {})"},
		{"setfenv", "setfenv(function() return getfenv(1) end, V)()"},
	}
	for _, n := range append(append([]string{}, forbiddenNames...), traversalNames...) {
		ops = append(ops, gOp{"index", fmt.Sprintf("V[%q]", n)})
	}
	for _, n := range forbiddenNames {
		ops = append(ops, gOp{"envread", fmt.Sprintf("setfenv(function() return %s end, V)()", n)})
	}
	for _, a := range []string{"", "0", "1", "2", `"x"`} {
		c := a
		if c != "" {
			c = ", " + c
		}
		ops = append(ops,
			gOp{"call-direct", "V(" + a + ")"},
			gOp{"call-pcall", "select(2, pcall(V" + c + "))"},
			gOp{"call-xpcall", "select(2, xpcall(function() return V(" + a + ") end, function(e) return e end))"},
			gOp{"call-wrap", "coroutine.wrap(V)(" + a + ")"},
			gOp{"call-resume", "select(2, coroutine.resume(coroutine.create(V)" + c + "))"},
		)
	}
	return ops
}

func gScript(atom gAtom, chain []gOp) string {
	var b strings.Builder
	b.WriteString("local R, E = {}, {}\n__c20r = R\n__c20e = E\nlocal V\n")
	b.WriteString("do local ok, x = pcall(function() return " + atom.Text + " end) if ok then V = x else E[1] = x end R[1] = V end\n")
	for i, o := range chain {
		fmt.Fprintf(&b, "if V ~= nil then local ok, x = pcall(function() return %s end) if ok then V = x else V = nil E[%d] = x end R[%d] = V end\n", o.Text, i+2, i+2)
	}
	b.WriteString("return 0\n")
	return b.String()
}

type scriptOutcome struct {
	code     int
	err      error
	last     lua.LValue
	lastCls  string
	findings []finding
	nodes    int64
	edges    int64
	stages   int
}

// runEscapeScript runs a script in a fresh sandbox through the real RunScript
// and judges everything reachable afterwards from the globals and from the
// values the script stored.
func runEscapeScript(db *refDB, script string, nstages int) (*scriptOutcome, error) {
	env, L, err := newSandbox(nil, 20)
	if err != nil {
		return nil, err
	}
	defer env.Cleanup()
	G := L.Get(lua.GlobalsIndex).(*lua.LTable)
	restore := muteStdout()
	code, rerr := env.RunScript(script, lua.LTable{})
	restore()
	o := &scriptOutcome{code: code, err: rerr}
	w := newWalker(db, env)
	for _, r := range stateRoots(L) {
		w.visit(r.v, r.path)
	}
	if R, ok := G.RawGetString("__c20r").(*lua.LTable); ok {
		o.stages = nstages
		R.ForEach(func(k, v lua.LValue) {
			w.visit(v, "R["+lua.LVAsString(k)+"]")
		})
		if nstages > 0 {
			o.last = R.RawGetInt(nstages)
		}
	}
	if E, ok := G.RawGetString("__c20e").(*lua.LTable); ok {
		w.visit(E, "E")
	}
	w.run()
	o.nodes, o.edges = w.nodes(), w.edges
	for _, f := range w.classify() {
		if f.verdict >= vDenied {
			o.findings = append(o.findings, f)
		}
	}
	o.lastCls = valueClass(w, G, o.last)
	return o, nil
}

func valueClass(w *walker, G *lua.LTable, v lua.LValue) string {
	switch x := v.(type) {
	case nil, *lua.LNilType:
		return "nil"
	case lua.LString, lua.LNumber, lua.LBool:
		return "data"
	case *lua.LTable:
		if x == G {
			return "table:globals"
		}
		for _, lib := range libTables {
			if G.RawGetString(lib) == v {
				return "table:library"
			}
		}
		return "table:other"
	case *lua.LFunction:
		if !x.IsG {
			return "function:lua"
		}
		return "function:" + w.judge(x, "").verdict.String()
	case *lua.LUserData:
		return "userdata"
	case *lua.LState:
		return "thread"
	}
	return "other"
}

// exploreGrammar enumerates all chains up to depth ops, pruning chains whose
// value became nil (every operator maps nil to nil).
func exploreGrammar(col *evid.Collector, db *refDB, depth int) {
	ops := gOps()
	col.Bound("grammar_atoms", len(gAtoms))
	col.Bound("grammar_ops", len(ops))
	col.Bound("grammar_depth", depth)
	var rec func(ai int, chain []gOp)
	rec = func(ai int, chain []gOp) {
		if col.Expired() {
			return
		}
		script := gScript(gAtoms[ai], chain)
		o, err := runEscapeScript(db, script, 1+len(chain))
		if err != nil {
			col.Fail("grammar: " + err.Error())
			return
		}
		col.Inc("evaluations")
		col.Inc("traces_validated_against_impl")
		col.Inc("escape_scripts")
		col.Add("escape_nodes_walked", o.nodes)
		kind := "atom"
		if len(chain) > 0 {
			kind = chain[len(chain)-1].Kind
		}
		outcome := o.lastCls
		if o.err != nil {
			outcome = "script-error"
		}
		if len(o.findings) > 0 {
			outcome = "ESCAPED"
			col.Inc("escape_reached_denied")
		} else {
			col.Inc("escape_contained")
		}
		if o.lastCls != "nil" {
			col.Inc("escape_chains_yielding_value")
		}
		col.Class("escape/%s/%s/%s", gAtoms[ai].Root, kind, outcome)
		if len(o.findings) > 0 {
			reportFindings(col, "escape", o.findings, replayCase{Kind: "escape", Script: script})
			return
		}
		if len(chain) >= depth || o.lastCls == "nil" {
			return
		}
		for _, op := range ops {
			rec(ai, append(append([]gOp{}, chain...), op))
		}
	}
	k := 0
	for ai := range gAtoms {
		for oi, op := range ops {
			k++
			if !evid.Mine(k) {
				continue
			}
			if oi == 0 {
				// the atom alone, once
				sc := gScript(gAtoms[ai], nil)
				if o, err := runEscapeScript(db, sc, 1); err == nil {
					col.Inc("evaluations")
					col.Inc("traces_validated_against_impl")
					col.Inc("escape_scripts")
					if len(o.findings) > 0 {
						col.Inc("escape_reached_denied")
						reportFindings(col, "escape", o.findings, replayCase{Kind: "escape", Script: sc})
					} else {
						col.Inc("escape_contained")
					}
					col.Class("escape/%s/atom/%s", gAtoms[ai].Root, o.lastCls)
				}
			}
			if depth >= 1 {
				rec(ai, []gOp{op})
			}
		}
	}
}
