package c20

import (
	"context"
	"crypto/sha256"
	"encoding/hex"
	"errors"
	"fmt"
	"sort"
	"strings"
	"testing"

	"github.com/gittuf/gittuf/experimental/gittuf"
	hookopts "github.com/gittuf/gittuf/experimental/gittuf/options/hooks"
	"github.com/gittuf/gittuf/internal/policy"
	"github.com/gittuf/gittuf/internal/tuf"
	"github.com/gittuf/gittuf/pkg/gitinterface"
	"github.com/gittuf/gittuf/verif/evid"
	"github.com/gittuf/gittuf/verif/gitback"
	"github.com/gittuf/gittuf/verif/keys"
	"github.com/gittuf/gittuf/verif/world"
)

// Hook selection through the real InvokeHooksForStage on a real repository.
//
// Principals: alice = key K0 (declared in the root metadata), bob = key K1
// (declared in the primary rule file), carol = a Person holding K1 (shared
// with bob) and K2. K3 belongs to nobody.

var hookStages = []tuf.HookStage{tuf.HookStagePreCommit, tuf.HookStagePrePush}

type hookSpec struct {
	Stages     int `json:"stages"`     // bit 0 pre-commit, bit 1 pre-push
	Principals int `json:"principals"` // bit 0 alice, bit 1 bob, bit 2 carol
}

type hookCase struct {
	Hooks  []hookSpec `json:"hooks"`
	Staged []hookSpec `json:"staged,omitempty"` // a different, staged-but-not-applied assignment
}

func (c hookCase) String() string {
	f := func(hs []hookSpec) string {
		p := []string{}
		for _, h := range hs {
			p = append(p, fmt.Sprintf("s%d:p%d", h.Stages, h.Principals))
		}
		return "[" + strings.Join(p, " ") + "]"
	}
	return f(c.Hooks) + "/staged" + f(c.Staged)
}

// hookCases: all multisets of at most maxHooks hooks, each hook being a
// non-empty stage set and any subset of the three principals; beyond that, up
// to extraHooks hooks restricted to the stage set {pre-commit, pre-push}.
func hookCases(maxHooks, extraHooks int) []hookCase {
	opts := []hookSpec{}
	for s := 1; s <= 3; s++ {
		for p := 0; p < 8; p++ {
			opts = append(opts, hookSpec{s, p})
		}
	}
	out := []hookCase{{}}
	var rec func(opts []hookSpec, limit, min, start int, cur []hookSpec)
	rec = func(opts []hookSpec, limit, min, start int, cur []hookSpec) {
		if len(cur) >= min && len(cur) > 0 {
			out = append(out, hookCase{Hooks: append([]hookSpec{}, cur...)})
		}
		if len(cur) == limit {
			return
		}
		for i := start; i < len(opts); i++ {
			rec(opts, limit, min, i, append(cur, opts[i]))
		}
	}
	rec(opts, maxHooks, 1, 0, nil)
	if extraHooks > maxHooks {
		rec(opts[16:], extraHooks, maxHooks+1, 0, nil)
	}
	if extraHooks == 0 {
		// quick tier: a fixed list of two-hook interactions (both stages)
		for _, pr := range [][2]int{{1, 2}, {1, 4}, {2, 4}, {1, 1}, {2, 2}, {4, 4}, {3, 4}, {6, 1}, {7, 0}, {2, 6}, {4, 6}, {7, 7}} {
			out = append(out, hookCase{Hooks: []hookSpec{{3, pr[0]}, {3, pr[1]}}})
		}
	}
	return out
}

type hookWorld struct {
	t       *testing.T
	repo    *gitback.Repo
	g       *gittuf.Repository
	version uint64
	ids     [3]string // principal ids alice, bob, carol
	scripts map[string]gitinterface.Hash
}

func newHookWorld(t *testing.T) (*hookWorld, error) {
	r := gitback.New(t, false)
	tree, err := r.EmptyTree()
	if err != nil {
		return nil, err
	}
	c, err := r.PutCommit(tree, nil, "init\n", nil)
	if err != nil {
		return nil, err
	}
	if err := r.SetReference("refs/heads/main", c); err != nil {
		return nil, err
	}
	g, err := gittuf.LoadRepository(r.Dir)
	if err != nil {
		return nil, err
	}
	w := &hookWorld{t: t, repo: r, g: g, scripts: map[string]gitinterface.Hash{}}
	w.ids = [3]string{keys.Get("K0").TUFKey().ID(), keys.Get("K1").TUFKey().ID(), "carol"}
	return w, nil
}

func hookName(i int) string { return fmt.Sprintf("hook%d", i) }
func hookCode(i int) int    { return 10 + i }

func (w *hookWorld) buildState(hs []hookSpec) (*policy.State, error) {
	R := keys.Get("R")
	alice, bob := keys.Get("K0").TUFKey(), keys.Get("K1").TUFKey()
	carol := keys.Person("carol", nil, keys.Get("K1"), keys.Get("K2"))
	w.version++
	root := world.Root(w.version, []tuf.Principal{R.TUFKey()}, 1, []tuf.Principal{R.TUFKey()}, 1)
	root.Principals[alice.ID()] = alice
	for i, h := range hs {
		src := fmt.Sprintf("return %d", hookCode(i))
		id, ok := w.scripts[src]
		if !ok {
			var err error
			id, err = w.repo.WriteBlob([]byte(src))
			if err != nil {
				return nil, err
			}
			w.scripts[src] = id
		}
		sum := sha256.Sum256([]byte(src))
		stages := []tuf.HookStage{}
		for b, st := range hookStages {
			if h.Stages&(1<<b) != 0 {
				stages = append(stages, st)
			}
		}
		pids := []string{}
		for b := 0; b < 3; b++ {
			if h.Principals&(1<<b) != 0 {
				pids = append(pids, w.ids[b])
			}
		}
		if _, err := root.AddHook(stages, hookName(i), pids, map[string]string{gitinterface.GitBlobHashName: id.String(), gitinterface.SHA256HashName: hex.EncodeToString(sum[:])}, tuf.HookEnvironmentLua, 100); err != nil {
			return nil, err
		}
	}
	targets := world.Targets(w.version, []tuf.Principal{bob, carol}, nil)
	return world.State(world.Envelope(root, R), world.Envelope(targets, R), nil), nil
}

// expected hooks of principal b (0..2) at stage s
func expectedFor(hs []hookSpec, b int, stageBit int) map[string]int {
	out := map[string]int{}
	for i, h := range hs {
		if h.Stages&(1<<stageBit) != 0 && h.Principals&(1<<b) != 0 {
			out[hookName(i)] = hookCode(i)
		}
	}
	return out
}

func sameCodes(a, b map[string]int) bool {
	if len(a) != len(b) {
		return false
	}
	for k, v := range a {
		if w, ok := b[k]; !ok || w != v {
			return false
		}
	}
	return true
}

func fmtCodes(m map[string]int) string {
	ks := []string{}
	for k, v := range m {
		ks = append(ks, fmt.Sprintf("%s=%d", k, v))
	}
	sort.Strings(ks)
	return "{" + strings.Join(ks, ",") + "}"
}

// owners of each invoking key: K0 alice; K1 bob and carol; K2 carol; K3 nobody
var keyOwners = map[string][]int{"K0": {0}, "K1": {1, 2}, "K2": {2}, "K3": {}}
var invokingKeys = []string{"K0", "K1", "K2", "K3"}

func (w *hookWorld) judge(col *evid.Collector, c hookCase) error {
	st, err := w.buildState(c.Hooks)
	if err != nil {
		return err
	}
	if _, err := world.PublishPolicy(w.repo, st, false); err != nil {
		return fmt.Errorf("publish: %w", err)
	}
	if c.Staged != nil {
		st2, err := w.buildState(c.Staged)
		if err != nil {
			return err
		}
		// recorded in the log like StagePolicy does: the staged, not yet
		// applied state is then the latest state of the staging reference
		if err := st2.Commit(w.repo, "staged", true, false); err != nil {
			return fmt.Errorf("stage: %w", err)
		}
	}
	col.Inc("hook_policies")
	for _, kn := range invokingKeys {
		for sb, stage := range hookStages {
			var opts []hookopts.Option
			if stage == tuf.HookStagePrePush {
				opts = append(opts, hookopts.WithPrePush("origin", "https://example.invalid/x.git", []string{"refs/heads/main:refs/heads/main"}))
			}
			codes, ierr := w.g.InvokeHooksForStage(context.Background(), keys.Signer{K: keys.Get(kn)}, stage, opts...)
			col.Inc("evaluations")
			col.Inc("hook_invocations")
			owners := keyOwners[kn]
			stageName := []string{"pre-commit", "pre-push"}[sb]
			replay := replayCase{Kind: "hooks", Hooks: &c}
			what := fmt.Sprintf("policy %s key %s stage %s: got %s err=%v", c, kn, stageName, fmtCodes(codes), ierr)
			if len(owners) == 0 {
				if ierr == nil {
					col.Violation("C20:hooks-run-for-unknown-key", what, replay)
				} else {
					col.Inc("hook_invocations_refused")
					col.Class("hooks/unknown-key/%s", errClass(ierr))
				}
				continue
			}
			matched := -1
			anyExpected := false
			union := map[string]int{}
			for _, b := range owners {
				exp := expectedFor(c.Hooks, b, sb)
				for k, v := range exp {
					union[k] = v
				}
				if len(exp) > 0 {
					anyExpected = true
				}
				if ierr == nil && len(exp) > 0 && sameCodes(exp, codes) {
					matched = b
				}
				if ierr != nil && len(exp) == 0 && (errors.Is(ierr, gittuf.ErrNoHooksFoundForPrincipal) || errors.Is(ierr, tuf.ErrNoHooksDefined)) {
					matched = b
				}
			}
			if ierr == nil {
				col.Inc("hook_invocations_ran")
				col.Add("hooks_run", int64(len(codes)))
			} else {
				col.Inc("hook_invocations_refused")
			}
			kc := "single-owner"
			if len(owners) > 1 {
				kc = "shared-key"
			}
			if matched >= 0 {
				col.Class("hooks/%s/%s/ran=%d/as=%s", kc, stageName, len(codes), []string{"alice", "bob", "carol"}[matched])
				continue
			}
			// which direction is wrong?
			extra := false
			for k, v := range codes {
				if ev, ok := union[k]; !ok || ev != v {
					extra = true
				}
			}
			switch {
			case ierr != nil && strings.Contains(ierr.Error(), "context deadline exceeded"):
				// CPU starvation ran a terminating hook into its timeout
				col.Inc("hook_cases_starved_no_verdict")
			case ierr != nil && !anyExpected:
				col.Class("hooks/%s/%s/refused-other-error/%s", kc, stageName, errClass(ierr))
				col.Violation("C20:hook-invocation-unexpected-error:"+errClass(ierr), what, replay)
			case ierr != nil:
				col.Violation("C20:assigned-hooks-not-run:"+errClass(ierr), what, replay)
			case extra:
				col.Violation("C20:hook-run-for-principal-not-assigned:"+kc, what+" expected "+fmtCodes(union), replay)
			default:
				col.Violation("C20:hook-set-matches-no-owning-principal:"+kc, what+" union of owners' hooks "+fmtCodes(union), replay)
			}
		}
	}
	return nil
}

func errClass(err error) string {
	switch {
	case errors.Is(err, gittuf.ErrNoHooksFoundForPrincipal):
		return "no-hooks-for-principal"
	case errors.Is(err, tuf.ErrNoHooksDefined):
		return "no-hooks-defined"
	case errors.Is(err, tuf.ErrPrincipalNotFound):
		return "principal-not-found"
	}
	s := firstLine(err.Error())
	if len(s) > 60 {
		s = s[:60]
	}
	return "other:" + s
}

// complement: a different assignment used as the staged, unapplied policy.
func complement(hs []hookSpec) []hookSpec {
	out := []hookSpec{}
	for _, h := range hs {
		out = append(out, hookSpec{Stages: h.Stages, Principals: 7 &^ h.Principals})
	}
	out = append(out, hookSpec{Stages: 3, Principals: 7})
	return out
}

func checkHookSelection(t *testing.T, col *evid.Collector, offset int) {
	maxHooks, extra := 1, 0
	if evid.Thorough() {
		maxHooks, extra = 2, 3
	}
	col.Bound("hooks_max_all_stage_sets", maxHooks)
	col.Bound("hooks_max_both_stages_only", extra)
	if extra == 0 {
		col.Bound("hooks_fixed_two_hook_cases", 12)
	}
	cases := hookCases(maxHooks, extra)
	col.Bound("hook_assignments", len(cases))
	for i, c := range cases {
		if !evid.Mine(offset + i) {
			continue
		}
		if col.Expired() {
			return
		}
		// a fresh repository per assignment: loading the policy re-verifies every earlier policy state
		w, err := newHookWorld(t)
		if err != nil {
			col.Fail("hooks: " + err.Error())
			return
		}
		if i%2 == 1 {
			c.Staged = complement(c.Hooks)
		}
		if err := w.judge(col, c); err != nil {
			col.Fail("hooks: " + err.Error())
			return
		}
	}
}
