package c20

// Lua-side graph walk, executed inside the sandbox through the real
// RunScript. It follows what a script can follow (next over tables, getfenv
// of functions, indexing of values through their type metatables) and applies
// reachable functions to reachable values and to inert arguments; every value
// obtained is stored by path. The Go side drives it in rounds until no value
// of a new shape appears (fixpoint under the shape abstraction of graph_test.go).

import (
	"fmt"
	"strings"

	lua "github.com/yuin/gopher-lua"
)

// names tried when indexing values: the statement's forbidden names plus the
// names needed to move through the environment.
var forbiddenNames = []string{
	"os", "io", "debug", "package", "_G", "dofile", "load", "loadfile", "loadstring", "require", "module",
	"rawget", "rawset", "rawequal", "setmetatable", "getmetatable", "collectgarbage",
	"rep", "dump", "randomseed", "channel",
}
var traversalNames = []string{"string", "table", "math", "coroutine", "__index", "__metatable", "__newindex", "gmatch", "find"}

func luaStrList(xs []string) string {
	q := make([]string, len(xs))
	for i, x := range xs {
		q[i] = fmt.Sprintf("%q", x)
	}
	return "{" + strings.Join(q, ",") + "}"
}

func luaIntList(xs []int) string {
	q := make([]string, len(xs))
	for i, x := range xs {
		q[i] = fmt.Sprint(x)
	}
	return "{" + strings.Join(q, ",") + "}"
}

// walkerRound builds the script of one round.
//
//	fnew/fold: indices (into vals) of callees that are new / already applied
//	anew/aold: indices of argument values that are new / already used
//	pairOK:    callees that also get (value, datum) and (datum, value) pairs
//	dataOnly:  callees applied to inert data only (registered repository APIs)
func walkerRound(fnew, fold, anew, aold, pairOK, dataOnly []int) string {
	names := append(append([]string{}, forbiddenNames...), traversalNames...)
	return `
local G = getfenv(0)
local S = G.__c20w
if S == nil then
  S = {vals = {}, paths = {}, seen = {}, cd = {}, of = {}, oa = {}, n = 0, done = 0, calls = 0, callok = 0, edges = 0,
       inertfn = function(...) return ... end}
end
G.__c20w = nil
local vals, paths, seen, cd, of, oa = S.vals, S.paths, S.seen, S.cd, S.of, S.oa
local type, next, pcall, tostring, select, getfenv, sub = type, next, pcall, tostring, select, getfenv, string.sub
local NAMES = ` + luaStrList(names) + `
local curF, curA = 0, 0
local function add(v, path, depth)
  S.edges = S.edges + 1
  local tv = type(v)
  if tv ~= "table" and tv ~= "function" and tv ~= "userdata" and tv ~= "thread" then return end
  if seen[v] then return end
  local n = S.n + 1
  S.n = n; seen[v] = n; vals[n] = v; cd[n] = depth; of[n] = curF; oa[n] = curA
  if #path > 200 then path = sub(path, 1, 90) .. "..." .. sub(path, -100) end
  paths[n] = path
end
local function indexer(v, k) return v[k] end
local function expand(i)
  local v, p, d = vals[i], paths[i], cd[i]
  local tv = type(v)
  if tv == "table" then
    for k, x in next, v, nil do
      add(k, p .. ".<key>", d)
      add(x, p .. "." .. tostring(k), d)
    end
  elseif tv == "function" then
    local ok, e = pcall(getfenv, v)
    if ok then add(e, "getfenv(" .. p .. ")", d) end
  end
  -- indexing through metamethods (tables: __index chains; other types: type metatables)
  for j = 1, #NAMES do
    local ok, x = pcall(indexer, v, NAMES[j])
    if ok then add(x, "(" .. p .. ")." .. NAMES[j], d) end
  end
end
if S.n == 0 then
  add(G, "G", 0)
  add(getfenv(0), "getfenv(0)", 0)
  add(getfenv(1), "getfenv(1)", 0)
  add(getfenv(2), "getfenv(2)", 0)
  add(S.inertfn, "<inert function>", 0)
  for _, probe in next, {"x", 0, true}, nil do
    for j = 1, #NAMES do
      local ok, x = pcall(indexer, probe, NAMES[j])
      if ok then add(x, "(" .. tostring(probe) .. ")." .. NAMES[j], 0) end
    end
  end
  for j = 1, #NAMES do
    local ok, x = pcall(indexer, nil, NAMES[j])
    if ok then add(x, "(nil)." .. NAMES[j], 0) end
  end
end
local function settle()
  while S.done < S.n do
    S.done = S.done + 1
    expand(S.done)
  end
end
settle()

local Fnew, Fold, Anew, Aold = ` + luaIntList(fnew) + `, ` + luaIntList(fold) + `, ` + luaIntList(anew) + `, ` + luaIntList(aold) + `
local pairOK, dataOnly = {}, {}
for _, i in next, ` + luaIntList(pairOK) + `, nil do pairOK[i] = true end
for _, i in next, ` + luaIntList(dataOnly) + `, nil do dataOnly[i] = true end
local DN = 7
local function D(i)
  if i == 1 then return 0 elseif i == 2 then return 1 elseif i == 3 then return 2 elseif i == 4 then return "x"
  elseif i == 5 then return true elseif i == 6 then return {} else return S.inertfn end
end
local DP = {"0", "1", "2", '"x"', "true", "{}", "<inert function>"}
local function rec(path, depth, ok, ...)
  S.calls = S.calls + 1
  if ok then S.callok = S.callok + 1 end
  local n = select("#", ...)
  if n > 0 then
    local r = {...}
    for i = 1, n do add(r[i], path .. "#" .. i, depth) end
  end
end
local function applyData(fi)
  local f, p, d = vals[fi], paths[fi], cd[fi] + 1
  curF, curA = fi, 0
  rec(p .. "()", d, pcall(f))
  if dataOnly[fi] then
    rec(p .. '("x")', d, pcall(f, "x"))
    rec(p .. "(0)", d, pcall(f, 0))
    rec(p .. '("x","x")', d, pcall(f, "x", "x"))
    return
  end
  for i = 1, DN do
    curA = -i
    rec(p .. "(" .. DP[i] .. ")", d, pcall(f, D(i)))
    for j = 1, DN do
      rec(p .. "(" .. DP[i] .. "," .. DP[j] .. ")", d, pcall(f, D(i), D(j)))
    end
  end
end
local PD = {2, 7}
local function applyVal(fi, ai)
  if dataOnly[fi] then return end
  local f, p, d = vals[fi], paths[fi], cd[fi] + 1
  local a, ap = vals[ai], paths[ai]
  curF, curA = fi, ai
  rec(p .. "(" .. ap .. ")", d, pcall(f, a))
  if pairOK[fi] then
    for _, i in next, PD, nil do
      rec(p .. "(" .. ap .. "," .. DP[i] .. ")", d, pcall(f, a, D(i)))
      rec(p .. "(" .. DP[i] .. "," .. ap .. ")", d, pcall(f, D(i), a))
    end
  end
end
for _, fi in next, Fnew, nil do
  applyData(fi)
  for _, ai in next, Aold, nil do applyVal(fi, ai) end
  for _, ai in next, Anew, nil do applyVal(fi, ai) end
end
for _, fi in next, Fold, nil do
  for _, ai in next, Anew, nil do applyVal(fi, ai) end
end
curF, curA = 0, 0
settle()
G.__c20w = S
return 0
`
}

type wval struct {
	idx    int
	v      lua.LValue
	path   string
	depth  int
	of, oa int
}

// readWalkerState extracts the values found so far (from index from+1).
func readWalkerState(G *lua.LTable, from int) (vals []wval, calls, callok, edges int64, err error) {
	S, ok := G.RawGetString("__c20w").(*lua.LTable)
	if !ok {
		return nil, 0, 0, 0, fmt.Errorf("walker state missing after the round")
	}
	num := func(k string) int64 { n, _ := S.RawGetString(k).(lua.LNumber); return int64(n) }
	n := int(num("n"))
	tv, _ := S.RawGetString("vals").(*lua.LTable)
	tp, _ := S.RawGetString("paths").(*lua.LTable)
	tc, _ := S.RawGetString("cd").(*lua.LTable)
	tf, _ := S.RawGetString("of").(*lua.LTable)
	ta, _ := S.RawGetString("oa").(*lua.LTable)
	if tv == nil || tp == nil || tc == nil || tf == nil || ta == nil {
		return nil, 0, 0, 0, fmt.Errorf("walker state malformed")
	}
	asInt := func(t *lua.LTable, i int) int { x, _ := t.RawGetInt(i).(lua.LNumber); return int(x) }
	for i := from + 1; i <= n; i++ {
		vals = append(vals, wval{idx: i, v: tv.RawGetInt(i), path: lua.LVAsString(tp.RawGetInt(i)), depth: asInt(tc, i), of: asInt(tf, i), oa: asInt(ta, i)})
	}
	return vals, num("calls"), num("callok"), num("edges"), nil
}
