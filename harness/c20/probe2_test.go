package c20

import (
	"context"
	"fmt"
	"testing"
	"time"

	"github.com/gittuf/gittuf/internal/tuf"
	"github.com/gittuf/gittuf/verif/keys"
	"github.com/gittuf/gittuf/verif/world"
)

func TestProbeHooks(t *testing.T) {
	w, err := newHookWorld(t)
	if err != nil {
		t.Fatal(err)
	}
	st, _ := w.buildState([]hookSpec{{3, 7}})
	if _, err := world.PublishPolicy(w.repo, st, false); err != nil {
		t.Fatal(err)
	}
	fmt.Println("MARK-BEGIN")
	t0 := time.Now()
	codes, err := w.g.InvokeHooksForStage(context.Background(), keys.Signer{K: keys.Get("K0")}, tuf.HookStagePreCommit)
	fmt.Println("MARK-END pre-commit", codes, err, time.Since(t0))
}
