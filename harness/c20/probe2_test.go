package c20

import (
	"fmt"
	"testing"
	"time"

	"github.com/gittuf/gittuf/verif/evid"
)

func TestProbeLW(t *testing.T) {
	db, _ := buildRefDB()
	atts, _ := libWriteAttempts(db)
	cnt := map[string]int{}
	for _, a := range atts {
		ch, ra, d, _ := runWriteAttempt(a)
		k := fmt.Sprintf("%s/%s changed=%v raised=%v", a.Method, a.KeyCls, ch, ra)
		if cnt[k] == 0 {
			fmt.Println(k, "|", firstLine(a.Script), "|", d)
		}
		cnt[k]++
	}
	fmt.Println(cnt)
}

func TestProbeHooks(t *testing.T) {
	col := evid.New("C20x")
	w, err := newHookWorld(t)
	if err != nil {
		t.Fatal(err)
	}
	cs := hookCases(2)
	fmt.Println("cases", len(cs))
	for _, i := range []int{0, 1, 30, 100, 200} {
		t0 := time.Now()
		c := cs[i]
		if err := w.judge(col, c); err != nil {
			t.Fatal(err)
		}
		fmt.Println(c, time.Since(t0))
	}
	fmt.Println(col.NumViolations())
}
