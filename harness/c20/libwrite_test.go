package c20

import (
	"fmt"
	"sort"

	"github.com/gittuf/gittuf/verif/evid"
	lua "github.com/yuin/gopher-lua"
)

var libTables = []string{"string", "table", "math", "coroutine"}

type writeAttempt struct {
	Lib    string `json:"lib"`
	Method string `json:"method"`
	Key    string `json:"key"`     // Lua expression of the key ("" if the method has none)
	KeyCls string `json:"key_cls"` // existing-key | fresh-key | array-slot | none
	Script string `json:"script"`
}

// libWriteAttempts enumerates, for every library table, every existing key,
// one fresh string key and the first array slot, through every way a script
// has to write a table.
func libWriteAttempts(db *refDB) ([]writeAttempt, error) {
	env, L, err := newSandbox(nil, 10)
	if err != nil {
		return nil, err
	}
	defer env.Cleanup()
	G := L.Get(lua.GlobalsIndex).(*lua.LTable)
	have := func(n string) bool { return G.RawGetString(n) != lua.LNil }
	var out []writeAttempt
	for _, lib := range libTables {
		t, ok := G.RawGetString(lib).(*lua.LTable)
		if !ok {
			return nil, fmt.Errorf("library table %s missing", lib)
		}
		type key struct{ expr, cls string }
		ks := []key{}
		t.ForEach(func(k, _ lua.LValue) {
			if s, ok := k.(lua.LString); ok {
				ks = append(ks, key{fmt.Sprintf("%q", string(s)), "existing-key"})
			}
		})
		sort.Slice(ks, func(i, j int) bool { return ks[i].expr < ks[j].expr })
		ks = append(ks, key{`"c20_fresh"`, "fresh-key"}, key{"1", "array-slot"})
		add := func(method string, k key, body string) {
			out = append(out, writeAttempt{Lib: lib, Method: method, Key: k.expr, KeyCls: k.cls, Script: body + "\nreturn 0"})
		}
		for _, k := range ks {
			add("assign", k, fmt.Sprintf("%s[%s] = 1", lib, k.expr))
			add("assign-nil", k, fmt.Sprintf("%s[%s] = nil", lib, k.expr))
			add("assign-via-getfenv", k, fmt.Sprintf("getfenv(0).%s[%s] = 1", lib, k.expr))
			if k.cls != "array-slot" {
				// global assignment inside a function whose environment is the library table
				name := k.expr[1 : len(k.expr)-1]
				add("setfenv-global-assign", k, fmt.Sprintf("setfenv(function() %s = 1 end, %s)()", name, lib))
			}
			if lib == "string" {
				add("assign-via-string-value", k, fmt.Sprintf(`("x").__index[%s] = 1`, k.expr))
			}
			if have("rawset") {
				add("rawset", k, fmt.Sprintf("rawset(%s, %s, 1)", lib, k.expr))
			}
		}
		none := key{"", "none"}
		add("table.insert-append", key{"", "array-slot"}, fmt.Sprintf("table.insert(%s, 1)", lib))
		add("table.insert-at", key{"1", "array-slot"}, fmt.Sprintf("table.insert(%s, 1, 1)", lib))
		add("table.remove", none, fmt.Sprintf("table.remove(%s)", lib))
		add("table.sort", none, fmt.Sprintf("table.sort(%s)", lib))
		add("table.sort-cmp", none, fmt.Sprintf("table.sort(%s, function(a, b) return a < b end)", lib))
		if have("setmetatable") {
			add("setmetatable", none, fmt.Sprintf("setmetatable(%s, {})", lib))
		}
	}
	return out, nil
}

// runWriteAttempt executes one attempt in a fresh sandbox and reports whether
// the library table changed (raw contents or metatable) and whether the
// script raised.
func runWriteAttempt(a writeAttempt) (changed bool, raised bool, detail string, err error) {
	env, L, err := newSandbox(nil, 10)
	if err != nil {
		return false, false, "", err
	}
	defer env.Cleanup()
	G := L.Get(lua.GlobalsIndex).(*lua.LTable)
	t, ok := G.RawGetString(a.Lib).(*lua.LTable)
	if !ok {
		return false, false, "", fmt.Errorf("library table %s missing", a.Lib)
	}
	before := snapshotTable(t)
	_, rerr := env.RunScript(a.Script, lua.LTable{})
	after := snapshotTable(t)
	if rerr != nil {
		raised = true
		detail = firstLine(rerr.Error())
	}
	return before != after, raised, detail, nil
}

func firstLine(s string) string {
	for i := 0; i < len(s); i++ {
		if s[i] == '\n' {
			return s[:i]
		}
	}
	return s
}

func checkLibWrites(col *evid.Collector, db *refDB) {
	atts, err := libWriteAttempts(db)
	if err != nil {
		col.Fail("libwrite: " + err.Error())
		return
	}
	col.Bound("libwrite_attempts", len(atts))
	for i, a := range atts {
		if !evid.Mine(i) {
			continue
		}
		changed, raised, detail, err := runWriteAttempt(a)
		if err != nil {
			col.Fail("libwrite: " + err.Error())
			return
		}
		col.Inc("evaluations")
		col.Inc("traces_validated_against_impl")
		col.Inc("libwrite_attempts")
		out := "unchanged"
		if changed {
			out = "MODIFIED"
			col.Inc("libwrite_modified")
		} else {
			col.Inc("libwrite_refused")
		}
		if raised {
			out += "+raised"
		} else {
			out += "+silent"
		}
		col.Class("libwrite/%s/%s/%s", a.Method, a.KeyCls, out)
		if changed {
			col.Violation("C20:library-table-modified:"+writeCause(a),
				fmt.Sprintf("script modified library table %s (%s, key %s): %s [%s]", a.Lib, a.Method, a.Key, firstLine(a.Script), detail),
				replayCase{Kind: "libwrite", Write: &a})
		}
	}
}

// writeCause names why the write got through (one signature per cause, not
// per syntactic form of the write).
func writeCause(a writeAttempt) string {
	switch {
	case a.Method == "rawset" || a.Method == "setmetatable":
		return a.Method + "-reachable"
	case len(a.Method) > 6 && a.Method[:6] == "table.":
		fn := a.Method
		for i := 6; i < len(fn); i++ {
			if fn[i] == '-' {
				fn = fn[:i]
				break
			}
		}
		return fn + "-writes-raw"
	case a.KeyCls == "existing-key":
		return "assignment-to-existing-key"
	}
	return "assignment-to-absent-key"
}
