package probe

import (
	"testing"

	_ "github.com/gittuf/gittuf/experimental/gittuf"
	_ "github.com/gittuf/gittuf/internal/cache"
	_ "github.com/gittuf/gittuf/internal/luasandbox"
	_ "github.com/gittuf/gittuf/internal/policy"
	_ "github.com/gittuf/gittuf/internal/propagation"
	_ "github.com/gittuf/gittuf/pkg/rsl"
)

func TestProbe(t *testing.T) {}
