// Package gitback adapts a real *gitinterface.Repository (lane G, and the
// conformance side of lane M) to the harness's Backend interface: the Storer
// methods are gittuf's own, raw object writes and ground-truth reads go
// through git plumbing that shares no code with gitinterface's parsers.
package gitback

import (
	"bytes"
	"errors"
	"fmt"
	"os"
	"os/exec"
	"reflect"
	"strings"
	"testing"
	"unsafe"

	"github.com/jonboulle/clockwork"

	"github.com/gittuf/gittuf/pkg/githash"
	"github.com/gittuf/gittuf/pkg/gitinterface"
	"github.com/gittuf/gittuf/verif/memstore"
)

type Repo struct {
	*gitinterface.Repository
	Dir string
}

// New creates a fresh test repository (fixed clock and identity).
func New(t *testing.T, bare bool) *Repo {
	t.Helper()
	dir, err := os.MkdirTemp(os.Getenv("VERIF_SCRATCH"), "repo-")
	if err != nil {
		t.Fatal(err)
	}
	t.Cleanup(func() { os.RemoveAll(dir) })
	r := gitinterface.CreateTestGitRepository(t, dir, bare)
	return &Repo{Repository: r, Dir: dir}
}

// Git runs git plumbing against the repository and returns raw stdout.
func (r *Repo) Git(stdin []byte, args ...string) ([]byte, error) {
	cmd := exec.Command("git", append([]string{"--git-dir", r.GetGitDir()}, args...)...)
	cmd.Env = append(os.Environ(), "LC_ALL=C", "GIT_CONFIG_GLOBAL=/dev/null", "GIT_CONFIG_SYSTEM=/dev/null")
	if stdin != nil {
		cmd.Stdin = bytes.NewReader(stdin)
	}
	var out, errb bytes.Buffer
	cmd.Stdout = &out
	cmd.Stderr = &errb
	if err := cmd.Run(); err != nil {
		return out.Bytes(), fmt.Errorf("git %s: %w: %s", strings.Join(args, " "), err, errb.String())
	}
	return out.Bytes(), nil
}

func (r *Repo) putRaw(kind string, data []byte) (githash.Hash, error) {
	out, err := r.Git(data, "hash-object", "-t", kind, "-w", "--stdin", "--literally")
	if err != nil {
		return nil, err
	}
	return githash.NewHash(strings.TrimSpace(string(out)))
}

// PutCommit writes the same bytes memstore.PutCommit would.
func (r *Repo) PutCommit(tree githash.Hash, parents []githash.Hash, message string, keyPEM []byte) (githash.Hash, error) {
	ps := make([]string, 0, len(parents))
	for _, p := range parents {
		ps = append(ps, p.String())
	}
	sig := ""
	if keyPEM != nil {
		_, payload := memstore.EncodeCommit(tree.String(), ps, message, "")
		var err error
		sig, err = memstore.SignSSH(payload, keyPEM)
		if err != nil {
			return nil, err
		}
	}
	full, _ := memstore.EncodeCommit(tree.String(), ps, message, sig)
	return r.putRaw("commit", full)
}

func (r *Repo) PutTag(target githash.Hash, name, message string, keyPEM []byte) (githash.Hash, error) {
	kindB, err := r.Git(nil, "cat-file", "-t", target.String())
	if err != nil {
		return nil, err
	}
	full, err := memstore.EncodeTag(target.String(), strings.TrimSpace(string(kindB)), name, message, keyPEM)
	if err != nil {
		return nil, err
	}
	return r.putRaw("tag", full)
}

// Refs lists all refs with plumbing (ground truth).
func (r *Repo) Refs() map[string]string {
	out, err := r.Git(nil, "for-each-ref", "--format=%(refname) %(objectname)")
	if err != nil {
		panic(err)
	}
	m := map[string]string{}
	for _, line := range strings.Split(strings.TrimSpace(string(out)), "\n") {
		if line == "" {
			continue
		}
		f := strings.SplitN(line, " ", 2)
		m[f[0]] = f[1]
	}
	return m
}

// Rebind returns a copy of the test repository handle tmpl (fixed identity,
// object format) that operates on the git directory gitDir and, when clock is
// not nil, reads time from clock. gitinterface.Repository has no exported way
// to do either, so the two unexported fields are set by reflection; a renamed
// field is reported as an error (never silently ignored).
func Rebind(tmpl *gitinterface.Repository, gitDir string, clock clockwork.Clock) (*gitinterface.Repository, error) {
	cp := *tmpl
	v := reflect.ValueOf(&cp).Elem()
	f := v.FieldByName("gitDirPath")
	if !f.IsValid() || f.Kind() != reflect.String {
		return nil, errors.New("gitinterface.Repository has no string field gitDirPath; update gitback.Rebind")
	}
	reflect.NewAt(f.Type(), unsafe.Pointer(f.UnsafeAddr())).Elem().SetString(gitDir)
	if cp.GetGitDir() != gitDir {
		return nil, errors.New("could not rebind the test repository handle")
	}
	if clock != nil {
		c := v.FieldByName("clock")
		if !c.IsValid() || c.Kind() != reflect.Interface {
			return nil, errors.New("gitinterface.Repository has no interface field clock; update gitback.Rebind")
		}
		reflect.NewAt(c.Type(), unsafe.Pointer(c.UnsafeAddr())).Elem().Set(reflect.ValueOf(clock))
	}
	return &cp, nil
}

// RawCommit is one commit as git stores it.
type RawCommit struct {
	ID      string
	Parents []string
	Message string
}

// ReadChain reads the commits under ref, newest first, following first
// parents, with cat-file only (no gitinterface, no pkg/rsl).
func ReadChain(gitDir, ref string) ([]RawCommit, error) {
	run := func(args ...string) ([]byte, error) {
		cmd := exec.Command("git", append([]string{"--git-dir", gitDir}, args...)...)
		cmd.Env = append(os.Environ(), "LC_ALL=C", "GIT_CONFIG_GLOBAL=/dev/null", "GIT_CONFIG_SYSTEM=/dev/null")
		return cmd.Output()
	}
	tipB, err := run("rev-parse", "--verify", "-q", ref)
	if err != nil {
		return nil, nil // no such ref
	}
	out := []RawCommit{}
	cur := strings.TrimSpace(string(tipB))
	seen := map[string]bool{}
	for cur != "" && !seen[cur] {
		seen[cur] = true
		raw, err := run("cat-file", "commit", cur)
		if err != nil {
			return out, fmt.Errorf("%s is not a commit: %w", cur, err)
		}
		head, msg, _ := strings.Cut(string(raw), "\n\n")
		c := RawCommit{ID: cur, Message: msg}
		for _, line := range strings.Split(head, "\n") {
			if strings.HasPrefix(line, "parent ") {
				c.Parents = append(c.Parents, strings.TrimPrefix(line, "parent "))
			}
		}
		out = append(out, c)
		if len(c.Parents) == 0 {
			break
		}
		cur = c.Parents[0]
	}
	return out, nil
}
