// Package c13 checks property C13: policy metadata stays well formed under
// edits, serialization and migration.
//
// Engine: explicit-state breadth-first search over sequences of metadata
// edits. Every transition calls the REAL mutator of internal/tuf/v01 or
// internal/tuf/v02 on an object that was rebuilt by re-executing the whole
// edit path from a fresh NewRootMetadata/NewTargetsMetadata (so no state is
// ever obtained through the serializer under test). States are deduplicated on
// the JSON the real serializer emits (map keys are sorted by encoding/json,
// sets are sorted by set.MarshalJSON).
//
// Oracle (independent of the code under test): the emitted JSON is parsed with
// local struct types and the invariant of the property statement is evaluated
// on it; refused edits must leave the JSON byte-identical; the object, its
// reload through the real loader (policy.StateMetadata.Get*Metadata) and, for
// the legacy schema, its migration (real loader with migrate=true and
// migrations.Migrate*V01ToV02 directly) must answer the same to every query.
//
// A second, small search (lane G, at the end of the file) drives the real
// repository API (gittuf.Repository) on real git repositories and checks, with
// git plumbing, that user rule names stay unique across all rule files.
package c13

import (
	"bytes"
	"context"
	"crypto"
	"crypto/sha256"
	"encoding/base64"
	"encoding/json"
	"errors"
	"fmt"
	"os"
	"os/exec"
	"path/filepath"
	"runtime"
	"sort"
	"strconv"
	"strings"
	"testing"

	"github.com/gittuf/gittuf/experimental/gittuf"
	"github.com/gittuf/gittuf/internal/policy"
	sslibdsse "github.com/gittuf/gittuf/internal/third_party/go-securesystemslib/dsse"
	"github.com/gittuf/gittuf/internal/tuf"
	"github.com/gittuf/gittuf/internal/tuf/migrations"
	tufv01 "github.com/gittuf/gittuf/internal/tuf/v01"
	tufv02 "github.com/gittuf/gittuf/internal/tuf/v02"
	"github.com/gittuf/gittuf/verif/evid"
	"github.com/gittuf/gittuf/verif/gitback"
	"github.com/gittuf/gittuf/verif/keys"
	"github.com/gittuf/gittuf/verif/world"
	"github.com/secure-systems-lab/go-securesystemslib/signerverifier"
)

// ---------------------------------------------------------------------------
// subjects and objects

type subject struct {
	Name   string // v01.targets | v02.targets | v01.root | v02.root
	root   bool
	legacy bool
}

var subjects = []*subject{
	{Name: "v02.targets"},
	{Name: "v01.targets", legacy: true},
	{Name: "v02.root", root: true},
	{Name: "v01.root", root: true, legacy: true},
}

type obj struct {
	sub *subject
	t   tuf.TargetsMetadata
	r   tuf.RootMetadata
}

func (s *subject) fresh() *obj {
	o := &obj{sub: s}
	switch {
	case s.root && s.legacy:
		o.r = tufv01.NewRootMetadata()
	case s.root:
		o.r = tufv02.NewRootMetadata()
	case s.legacy:
		o.t = tufv01.NewTargetsMetadata()
	default:
		o.t = tufv02.NewTargetsMetadata()
	}
	return o
}

func (o *obj) md() any {
	if o.sub.root {
		return o.r
	}
	return o.t
}

// marshal is the real serialization (dsse.CreateEnvelope does json.Marshal).
func (o *obj) marshal() ([]byte, error) { return json.Marshal(o.md()) }

// ---------------------------------------------------------------------------
// argument alphabet

const ghostID = "SHA256:ghost-principal-that-is-never-defined"

var (
	k = [3]*keys.Key{keys.Get("C13-K0"), keys.Get("C13-K1"), keys.Get("C13-K2")}
)

func keyN(n int) tuf.Principal {
	c := *k[n].SSLib
	return tufv01.NewKeyFromSSLibKey(&c)
}

// keyAlt has the id of key n but the public material of another key (a valid
// argument of UpdatePrincipal: same id, new content).
func keyAlt(n int) tuf.Principal {
	c := *k[n].SSLib
	c.KeyVal = signerverifier.KeyVal{Public: k[(n+1)%3].SSLib.KeyVal.Public}
	return tufv01.NewKeyFromSSLibKey(&c)
}

func alice(extra string) tuf.Principal {
	p := keys.Person("alice", map[string]string{"gh": "alice" + extra}, k[2])
	return p
}

type bogusPrincipal struct{}

func (bogusPrincipal) ID() string                       { return "bogus" }
func (bogusPrincipal) Keys() []*signerverifier.SSLibKey { return nil }
func (bogusPrincipal) CustomMetadata() map[string]string {
	return nil
}

// id labels used in operation names -> real ids
func ids(labels ...string) []string {
	out := make([]string, 0, len(labels))
	for _, l := range labels {
		switch l {
		case "k0":
			out = append(out, k[0].KeyID)
		case "k1":
			out = append(out, k[1].KeyID)
		case "k2":
			out = append(out, k[2].KeyID)
		case "ghost":
			out = append(out, ghostID)
		default:
			out = append(out, l)
		}
	}
	return out
}

type op struct {
	Name string
	Mut  string // mutator
	Tag  string // argument shape (cause part of violation signatures)
	run  func(o *obj) error
}

type ruleArgs struct {
	name string
	ids  []string
	pats []string
	thr  int
	tag  string
}

var ruleMenu = []ruleArgs{
	{"r1", []string{"k0"}, []string{"git:*"}, 1, "valid"},
	{"r2", []string{"k0", "k1"}, []string{"file:a", "git:b"}, 2, "valid"},
	{"r1", []string{"k0", "k1"}, []string{"git:*"}, 1, "valid"},
	{"r2", []string{"k1"}, []string{}, 1, "valid-no-patterns"},
	{"gittuf-x", []string{"k0"}, []string{"git:*"}, 1, "reserved-prefix"},
	{tuf.AllowRuleName, []string{"k0"}, []string{"git:*"}, 1, "allow-rule-name"},
	{"", []string{"k0"}, []string{"git:*"}, 1, "empty-name"},
	{"r1", []string{"ghost"}, []string{"git:*"}, 1, "unknown-id"},
	{"r1", []string{"k0", "ghost"}, []string{"git:*"}, 1, "unknown-id"},
	{"r1", []string{"k0"}, []string{"git:*"}, 0, "threshold-0"},
	{"r1", []string{"k0"}, []string{"git:*"}, -1, "threshold-negative"},
	{"r1", []string{"k0"}, []string{"git:*"}, 2, "threshold-above-ids"},
	{"r1", []string{"k0", "k1"}, []string{"git:*"}, 3, "threshold-above-ids"},
	{"r1", []string{"k0", "k0"}, []string{"git:*"}, 2, "duplicate-ids"},
	{"r2", []string{"k0", "k0", "k1"}, []string{"file:a", "git:b"}, 3, "duplicate-ids"},
	{"r1", []string{}, []string{"git:*"}, 1, "no-ids"},
	{"r2", []string{}, []string{}, 0, "no-ids-threshold-0"},
}

func lbl(l []string) string { return "[" + strings.Join(l, " ") + "]" }

var targetsStatic []*op

func buildTargetsOps() []*op {
	out := []*op{}
	for _, a := range ruleMenu {
		a := a
		out = append(out, &op{Name: fmt.Sprintf("AddRule(%q,%s,%s,%d)", a.name, lbl(a.ids), lbl(a.pats), a.thr), Mut: "AddRule", Tag: a.tag, run: func(o *obj) error {
			return o.t.AddRule(a.name, ids(a.ids...), append([]string{}, a.pats...), a.thr)
		}})
	}
	for _, a := range ruleMenu {
		a := a
		out = append(out, &op{Name: fmt.Sprintf("UpdateRule(%q,%s,%s,%d)", a.name, lbl(a.ids), lbl(a.pats), a.thr), Mut: "UpdateRule", Tag: a.tag, run: func(o *obj) error {
			return o.t.UpdateRule(a.name, ids(a.ids...), append([]string{}, a.pats...), a.thr)
		}})
	}
	for _, n := range []struct{ name, tag string }{{"r1", "user-rule"}, {"r2", "user-rule"}, {"gittuf-x", "reserved-prefix"}, {tuf.AllowRuleName, "allow-rule-name"}, {"", "empty-name"}, {"nope", "unknown-rule"}} {
		n := n
		out = append(out, &op{Name: fmt.Sprintf("RemoveRule(%q)", n.name), Mut: "RemoveRule", Tag: n.tag, run: func(o *obj) error { return o.t.RemoveRule(n.name) }})
	}
	type pa struct {
		label, tag string
		mk         func() tuf.Principal
	}
	princ := []pa{
		{"k0", "key", func() tuf.Principal { return keyN(0) }},
		{"k1", "key", func() tuf.Principal { return keyN(1) }},
		{"alice", "person", func() tuf.Principal { return alice("") }},
		{"nil", "nil", func() tuf.Principal { return nil }},
		{"bogus", "unsupported-type", func() tuf.Principal { return bogusPrincipal{} }},
	}
	for _, p := range princ {
		p := p
		out = append(out, &op{Name: "AddPrincipal(" + p.label + ")", Mut: "AddPrincipal", Tag: p.tag, run: func(o *obj) error { return o.t.AddPrincipal(p.mk()) }})
	}
	upd := []pa{
		{"k0'", "key-new-content", func() tuf.Principal { return keyAlt(0) }},
		{"k2", "key", func() tuf.Principal { return keyN(2) }},
		{"alice'", "person-new-content", func() tuf.Principal { return alice("-2") }},
		{"nil", "nil", func() tuf.Principal { return nil }},
		{"bogus", "unsupported-type", func() tuf.Principal { return bogusPrincipal{} }},
	}
	for _, p := range upd {
		p := p
		out = append(out, &op{Name: "UpdatePrincipal(" + p.label + ")", Mut: "UpdatePrincipal", Tag: p.tag, run: func(o *obj) error { return o.t.UpdatePrincipal(p.mk()) }})
	}
	for _, p := range []struct{ label, tag string }{{"k0", "key"}, {"k1", "key"}, {"alice", "person"}, {"ghost", "unknown-id"}, {"", "empty-id"}} {
		p := p
		out = append(out, &op{Name: "RemovePrincipal(" + p.label + ")", Mut: "RemovePrincipal", Tag: p.tag, run: func(o *obj) error { return o.t.RemovePrincipal(ids(p.label)[0]) }})
	}
	return out
}

// reorderOps are derived from the rule names currently in the file.
func reorderOps(o *obj) []*op {
	cur := []string{}
	for _, r := range o.t.GetRules() {
		if r.ID() != tuf.AllowRuleName {
			cur = append(cur, r.ID())
		}
	}
	type cand struct {
		l   []string
		tag string
	}
	cands := []cand{}
	rev := make([]string, len(cur))
	for i, n := range cur {
		rev[len(cur)-1-i] = n
	}
	cands = append(cands, cand{rev, "reversed"})
	if len(cur) > 2 {
		cands = append(cands, cand{append(append([]string{}, cur[1:]...), cur[0]), "rotated"})
	}
	if len(cur) > 0 {
		cands = append(cands, cand{append([]string{}, cur[:len(cur)-1]...), "omission"})
		cands = append(cands, cand{append(append([]string{}, cur...), cur[0]), "duplicate"})
	}
	cands = append(cands, cand{append(append([]string{}, cur...), tuf.AllowRuleName), "with-allow-rule"})
	cands = append(cands, cand{append([]string{tuf.AllowRuleName}, cur...), "allow-rule-first"})
	cands = append(cands, cand{append(append([]string{}, cur...), "nope"), "unknown-rule"})
	out := []*op{}
	seen := map[string]bool{}
	for _, c := range cands {
		c := c
		name := fmt.Sprintf("ReorderRules(%q)", c.l)
		if seen[name] {
			continue
		}
		seen[name] = true
		out = append(out, &op{Name: name, Mut: "ReorderRules", Tag: c.tag, run: func(o *obj) error { return o.t.ReorderRules(append([]string{}, c.l...)) }})
	}
	return out
}

var rootStatic []*op

func buildRootOps() []*op {
	out := []*op{}
	type pa struct {
		label, tag string
		mk         func() tuf.Principal
	}
	princ := []pa{
		{"k0", "key", func() tuf.Principal { return keyN(0) }},
		{"k1", "key", func() tuf.Principal { return keyN(1) }},
		{"k2", "key", func() tuf.Principal { return keyN(2) }},
		{"alice", "person", func() tuf.Principal { return alice("") }},
		{"nil", "nil", func() tuf.Principal { return nil }},
		{"bogus", "unsupported-type", func() tuf.Principal { return bogusPrincipal{} }},
	}
	for _, p := range princ {
		p := p
		out = append(out, &op{Name: "AddRootPrincipal(" + p.label + ")", Mut: "AddRootPrincipal", Tag: p.tag, run: func(o *obj) error { return o.r.AddRootPrincipal(p.mk()) }})
	}
	for _, p := range princ {
		if p.label == "k2" {
			continue
		}
		p := p
		out = append(out, &op{Name: "AddPrimaryRuleFilePrincipal(" + p.label + ")", Mut: "AddPrimaryRuleFilePrincipal", Tag: p.tag, run: func(o *obj) error { return o.r.AddPrimaryRuleFilePrincipal(p.mk()) }})
	}
	for _, p := range []struct{ label, tag string }{{"k0", "key"}, {"k1", "key"}, {"alice", "person"}, {"ghost", "unknown-id"}, {"", "empty-id"}} {
		p := p
		out = append(out, &op{Name: "DeleteRootPrincipal(" + p.label + ")", Mut: "DeleteRootPrincipal", Tag: p.tag, run: func(o *obj) error { return o.r.DeleteRootPrincipal(ids(p.label)[0]) }})
		out = append(out, &op{Name: "DeletePrimaryRuleFilePrincipal(" + p.label + ")", Mut: "DeletePrimaryRuleFilePrincipal", Tag: p.tag, run: func(o *obj) error { return o.r.DeletePrimaryRuleFilePrincipal(ids(p.label)[0]) }})
	}
	for _, th := range []int{-1, 0, 1, 2, 3} {
		th := th
		out = append(out, &op{Name: fmt.Sprintf("UpdateRootThreshold(%d)", th), Mut: "UpdateRootThreshold", Tag: "threshold=" + strconv.Itoa(th), run: func(o *obj) error { return o.r.UpdateRootThreshold(th) }})
		out = append(out, &op{Name: fmt.Sprintf("UpdatePrimaryRuleFileThreshold(%d)", th), Mut: "UpdatePrimaryRuleFileThreshold", Tag: "threshold=" + strconv.Itoa(th), run: func(o *obj) error { return o.r.UpdatePrimaryRuleFileThreshold(th) }})
	}

	// global rules; a rule the constructor refuses never reaches the metadata
	// (that is how the repository API behaves) and counts as a refused edit
	type ga struct {
		kind, name string
		pats       []string
		thr        int
		tag        string
	}
	mkGlobal := func(a ga) (tuf.GlobalRule, error) {
		if a.kind == "threshold" {
			return tufv02.NewGlobalRuleThreshold(a.name, append([]string{}, a.pats...), a.thr), nil
		}
		return tufv02.NewGlobalRuleBlockForcePushes(a.name, append([]string{}, a.pats...))
	}
	gname := func(a ga) string {
		if a.kind == "threshold" {
			return fmt.Sprintf("threshold,%s,%s,%d", a.name, lbl(a.pats), a.thr)
		}
		return fmt.Sprintf("block-force-pushes,%s,%s", a.name, lbl(a.pats))
	}
	for _, a := range []ga{
		{"threshold", "g1", []string{"git:refs/heads/main"}, 1, "threshold-valid"},
		{"threshold", "g2", []string{"git:*", "file:a"}, 2, "threshold-valid"},
		{"threshold", "g1", []string{"file:a"}, 0, "threshold-0"},
		{"threshold", "g2", []string{"file:a"}, -1, "threshold-negative"},
		{"block-force-pushes", "g2", []string{"git:refs/heads/main"}, 0, "bfp-valid"},
		{"block-force-pushes", "g1", []string{"git:*"}, 0, "bfp-valid"},
		{"block-force-pushes", "g3", []string{"file:a"}, 0, "bfp-non-git-pattern"},
	} {
		a := a
		out = append(out, &op{Name: "AddGlobalRule(" + gname(a) + ")", Mut: "AddGlobalRule", Tag: a.tag, run: func(o *obj) error {
			g, err := mkGlobal(a)
			if err != nil {
				return err
			}
			return o.r.AddGlobalRule(g)
		}})
	}
	for _, a := range []ga{
		{"threshold", "g1", []string{"git:*"}, 3, "threshold-valid"},
		{"threshold", "g1", []string{"git:*"}, 0, "threshold-0"},
		{"threshold", "g2", []string{"git:*"}, 1, "threshold-valid"},
		{"block-force-pushes", "g1", []string{"git:refs/heads/main"}, 0, "bfp-valid"},
		{"block-force-pushes", "g2", []string{"git:refs/tags/*"}, 0, "bfp-valid"},
		{"threshold", "nope", []string{"git:*"}, 1, "unknown-rule"},
	} {
		a := a
		out = append(out, &op{Name: "UpdateGlobalRule(" + gname(a) + ")", Mut: "UpdateGlobalRule", Tag: a.tag, run: func(o *obj) error {
			g, err := mkGlobal(a)
			if err != nil {
				return err
			}
			return o.r.UpdateGlobalRule(g)
		}})
	}
	for _, n := range []string{"g1", "g2", "nope"} {
		n := n
		out = append(out, &op{Name: "DeleteGlobalRule(" + n + ")", Mut: "DeleteGlobalRule", Tag: "name=" + n, run: func(o *obj) error { return o.r.DeleteGlobalRule(n) }})
	}

	// propagation directives
	type da struct{ name, repo, ref, path, dref, dpath, tag string }
	for _, a := range []da{
		{"d1", "https://up/one", "refs/heads/main", "src", "refs/heads/main", "vendor/one", "new"},
		{"d2", "https://up/two", "refs/heads/main", "", "refs/heads/main", "vendor/two", "new"},
		{"d1", "https://up/three", "refs/heads/dev", "x", "refs/heads/main", "vendor/three", "same-name-other-content"},
		{"d3", "https://up/one", "refs/heads/main", "src", "refs/heads/main", "vendor/one", "other-name-same-content"},
	} {
		a := a
		out = append(out, &op{Name: fmt.Sprintf("AddPropagationDirective(%s,%s)", a.name, a.repo), Mut: "AddPropagationDirective", Tag: a.tag, run: func(o *obj) error {
			return o.r.AddPropagationDirective(tufv02.NewPropagationDirective(a.name, a.repo, a.ref, a.path, a.dref, a.dpath))
		}})
	}
	for _, a := range []da{
		{"d1", "https://up/one-moved", "refs/heads/main", "src", "refs/heads/main", "vendor/one", "existing"},
		{"nope", "https://up/none", "refs/heads/main", "", "refs/heads/main", "", "unknown"},
	} {
		a := a
		out = append(out, &op{Name: fmt.Sprintf("UpdatePropagationDirective(%s,%s)", a.name, a.repo), Mut: "UpdatePropagationDirective", Tag: a.tag, run: func(o *obj) error {
			return o.r.UpdatePropagationDirective(tufv02.NewPropagationDirective(a.name, a.repo, a.ref, a.path, a.dref, a.dpath))
		}})
	}
	for _, n := range []string{"d1", "d2", "nope"} {
		n := n
		out = append(out, &op{Name: "DeletePropagationDirective(" + n + ")", Mut: "DeletePropagationDirective", Tag: "name=" + n, run: func(o *obj) error { return o.r.DeletePropagationDirective(n) }})
	}

	// controller / network repositories
	out = append(out, &op{Name: "EnableController()", Mut: "EnableController", Tag: "-", run: func(o *obj) error { return o.r.EnableController() }})
	out = append(out, &op{Name: "DisableController()", Mut: "DisableController", Tag: "-", run: func(o *obj) error { return o.r.DisableController() }})
	type ra struct {
		name, loc string
		ps        []string
		tag       string
	}
	mkPs := func(ls []string) []tuf.Principal {
		ps := []tuf.Principal{}
		for _, l := range ls {
			switch l {
			case "k0":
				ps = append(ps, keyN(0))
			case "k1":
				ps = append(ps, keyN(1))
			case "k2":
				ps = append(ps, keyN(2))
			case "alice":
				ps = append(ps, alice(""))
			case "bogus":
				ps = append(ps, bogusPrincipal{})
			}
		}
		return ps
	}
	for _, a := range []ra{
		{"c1", "https://ctl/one", []string{"k0"}, "new"},
		{"c2", "https://ctl/two", []string{"k1"}, "new"},
		{"c1", "https://ctl/three", []string{"k2"}, "duplicate-name"},
		{"c3", "https://ctl/one", []string{"k2"}, "duplicate-location"},
		{"c3", "https://ctl/three", []string{"k0"}, "duplicate-keyset"},
		{"c4", "https://ctl/four", []string{"alice"}, "person"},
		{"c5", "https://ctl/five", []string{"k2", "bogus"}, "unsupported-type"},
	} {
		a := a
		out = append(out, &op{Name: fmt.Sprintf("AddControllerRepository(%s,%s,%s)", a.name, a.loc, lbl(a.ps)), Mut: "AddControllerRepository", Tag: a.tag, run: func(o *obj) error {
			return o.r.AddControllerRepository(a.name, a.loc, mkPs(a.ps))
		}})
	}
	for _, a := range []ra{
		{"n1", "https://net/one", []string{"k0"}, "new"},
		{"n2", "https://net/two", []string{"k1"}, "new"},
		{"n1", "https://net/three", []string{"k2"}, "duplicate-name"},
		{"n3", "https://net/three", []string{"k2", "bogus"}, "unsupported-type"},
	} {
		a := a
		out = append(out, &op{Name: fmt.Sprintf("AddNetworkRepository(%s,%s,%s)", a.name, a.loc, lbl(a.ps)), Mut: "AddNetworkRepository", Tag: a.tag, run: func(o *obj) error {
			return o.r.AddNetworkRepository(a.name, a.loc, mkPs(a.ps))
		}})
	}

	// hooks
	type ha struct {
		stages []tuf.HookStage
		name   string
		ps     []string
		hashes map[string]string
		env    tuf.HookEnvironment
		to     int
		tag    string
	}
	pc, pp, bad := tuf.HookStagePreCommit, tuf.HookStagePrePush, tuf.HookStage(7)
	stg := func(s []tuf.HookStage) string {
		l := []string{}
		for _, x := range s {
			switch x {
			case pc:
				l = append(l, "preCommit")
			case pp:
				l = append(l, "prePush")
			default:
				l = append(l, fmt.Sprintf("stage#%d", uint(x)))
			}
		}
		return lbl(l)
	}
	cp := func(m map[string]string) map[string]string {
		if m == nil {
			return nil
		}
		c := map[string]string{}
		for a, b := range m {
			c[a] = b
		}
		return c
	}
	hname := func(a ha) string {
		h := []string{}
		for x, y := range a.hashes {
			h = append(h, x+"="+y)
		}
		sort.Strings(h)
		hs := lbl(h)
		if a.hashes == nil {
			hs = "nil"
		}
		return fmt.Sprintf("%s,%s,%s,%s,env#%d,%d", stg(a.stages), a.name, lbl(a.ps), hs, uint(a.env), a.to)
	}
	for _, a := range []ha{
		{[]tuf.HookStage{pc}, "h1", []string{"k0"}, map[string]string{"sha256": "aa"}, tuf.HookEnvironmentLua, 10, "valid"},
		{[]tuf.HookStage{pc, pp}, "h2", []string{"ghost"}, nil, tuf.HookEnvironmentLua, 0, "two-stages-unknown-id-nil-hashes"},
		{[]tuf.HookStage{pp, bad}, "h1", []string{"k0"}, map[string]string{"sha256": "aa"}, tuf.HookEnvironmentLua, 10, "valid-stage-then-invalid-stage"},
		{[]tuf.HookStage{pp, pc}, "h1", []string{"k1"}, map[string]string{"sha256": "dd"}, tuf.HookEnvironmentLua, 10, "two-stages"},
		{[]tuf.HookStage{bad}, "h3", []string{"k0"}, map[string]string{"sha256": "aa"}, tuf.HookEnvironmentLua, 10, "invalid-stage"},
		{[]tuf.HookStage{pc}, "h4", []string{"k0"}, map[string]string{"sha256": "aa"}, tuf.HookEnvironment(5), 10, "invalid-environment"},
		{[]tuf.HookStage{}, "h5", []string{"k0"}, map[string]string{"sha256": "aa"}, tuf.HookEnvironmentLua, 10, "no-stages"},
	} {
		a := a
		out = append(out, &op{Name: "AddHook(" + hname(a) + ")", Mut: "AddHook", Tag: a.tag, run: func(o *obj) error {
			_, err := o.r.AddHook(append([]tuf.HookStage{}, a.stages...), a.name, ids(a.ps...), cp(a.hashes), a.env, a.to)
			return err
		}})
	}
	for _, a := range []ha{
		{[]tuf.HookStage{pc}, "h1", []string{"k1"}, map[string]string{"sha256": "bb"}, tuf.HookEnvironmentLua, 20, "valid"},
		{[]tuf.HookStage{pc, pp}, "h2", []string{"k0"}, map[string]string{"gitBlob": "cc"}, tuf.HookEnvironmentLua, 5, "two-stages"},
		{[]tuf.HookStage{pp}, "h1", []string{}, map[string]string{}, tuf.HookEnvironment(5), -1, "invalid-environment"},
		{[]tuf.HookStage{bad}, "h1", []string{"k0"}, map[string]string{"sha256": "bb"}, tuf.HookEnvironmentLua, 20, "invalid-stage"},
		{[]tuf.HookStage{pc}, "nope", []string{"k0"}, map[string]string{"sha256": "bb"}, tuf.HookEnvironmentLua, 20, "unknown-hook"},
	} {
		a := a
		out = append(out, &op{Name: "UpdateHook(" + hname(a) + ")", Mut: "UpdateHook", Tag: a.tag, run: func(o *obj) error {
			return o.r.UpdateHook(append([]tuf.HookStage{}, a.stages...), a.name, ids(a.ps...), cp(a.hashes), a.env, a.to)
		}})
	}
	for _, a := range []ha{
		{stages: []tuf.HookStage{pc}, name: "h1", tag: "one-stage"},
		{stages: []tuf.HookStage{pc, pp}, name: "h2", tag: "two-stages"},
		{stages: []tuf.HookStage{bad}, name: "h1", tag: "invalid-stage"},
		{stages: []tuf.HookStage{pp}, name: "nope", tag: "unknown-hook"},
	} {
		a := a
		out = append(out, &op{Name: fmt.Sprintf("RemoveHook(%s,%s)", stg(a.stages), a.name), Mut: "RemoveHook", Tag: a.tag, run: func(o *obj) error {
			return o.r.RemoveHook(append([]tuf.HookStage{}, a.stages...), a.name)
		}})
	}
	return out
}

func menu(o *obj) []*op {
	if o.sub.root {
		return rootStatic
	}
	return append(append([]*op{}, targetsStatic...), reorderOps(o)...)
}

// start states are built with the real mutators, by operation name
var starts = map[bool]map[string][]string{
	false: {
		"empty":  {},
		"seeded": {"AddPrincipal(k0)", "AddPrincipal(k1)", `AddRule("r1",[k0],[git:*],1)`},
	},
	true: {
		"empty":  {},
		"seeded": {"AddRootPrincipal(k0)", "AddRootPrincipal(k1)", "AddPrimaryRuleFilePrincipal(k0)"},
	},
}

var startOrder = []string{"empty", "seeded"}

func findOp(o *obj, name string) *op {
	for _, p := range menu(o) {
		if p.Name == name {
			return p
		}
	}
	return nil
}

// panicSite names the innermost gittuf (non-harness) frame of the panic being
// recovered.
func panicSite() string {
	pcs := make([]uintptr, 64)
	n := runtime.Callers(2, pcs)
	frames := runtime.CallersFrames(pcs[:n])
	for {
		f, more := frames.Next()
		if strings.Contains(f.Function, "github.com/gittuf/gittuf/") && !strings.Contains(f.Function, "/verif/") {
			return fmt.Sprintf("%s (%s:%d)", f.Function, f.File, f.Line)
		}
		if !more {
			return "?"
		}
	}
}

// apply runs one real mutator; a panic is reported, not propagated.
func apply(o *obj, p *op) (err error, pv any) {
	defer func() {
		if r := recover(); r != nil {
			pv = fmt.Sprintf("%v at %s", r, panicSite())
		}
	}()
	err = p.run(o)
	return err, nil
}

// rebuild re-executes start + path on a fresh object.
func rebuild(sub *subject, seed, path []*op) *obj {
	o := sub.fresh()
	for _, p := range seed {
		_, _ = apply(o, p)
	}
	for _, p := range path {
		_, _ = apply(o, p)
	}
	return o
}

func seedOps(sub *subject, start string) ([]*op, error) {
	o := sub.fresh()
	out := []*op{}
	for _, n := range starts[sub.root][start] {
		p := findOp(o, n)
		if p == nil {
			return nil, fmt.Errorf("start %s: operation %s not in the menu", start, n)
		}
		if err, pv := apply(o, p); err != nil || pv != nil {
			return nil, fmt.Errorf("start %s: %s failed: %v %v", start, n, err, pv)
		}
		out = append(out, p)
	}
	return out, nil
}

// ---------------------------------------------------------------------------
// queries (the observable answers of a metadata object)

type qa struct{ q, a string }

var coverPaths = []string{"git:refs/heads/main", "git:refs/tags/v1", "git:b", "file:a", "file:b", "x", ""}

func principalString(p tuf.Principal) string {
	if p == nil {
		return "<nil>"
	}
	ks := []string{}
	for _, key := range p.Keys() {
		if key == nil {
			ks = append(ks, "<nil>")
			continue
		}
		ks = append(ks, key.KeyID+"|"+key.KeyType+"|"+key.Scheme+"|"+key.KeyVal.Public)
	}
	sort.Strings(ks)
	cm := []string{}
	for a, b := range p.CustomMetadata() {
		cm = append(cm, a+"="+b)
	}
	sort.Strings(cm)
	return p.ID() + "{" + strings.Join(ks, ",") + "}{" + strings.Join(cm, ",") + "}"
}

func principalsMapString(m map[string]tuf.Principal) string {
	l := []string{}
	for id, p := range m {
		l = append(l, id+"->"+principalString(p))
	}
	sort.Strings(l)
	return strings.Join(l, ";")
}

func principalsListString(l []tuf.Principal, err error) string {
	if err != nil {
		return "error: " + err.Error()
	}
	s := []string{}
	for _, p := range l {
		s = append(s, principalString(p))
	}
	sort.Strings(s)
	return strings.Join(s, ";")
}

func setString(has bool, c []string) string {
	if !has {
		return "[]"
	}
	c = append([]string{}, c...)
	sort.Strings(c)
	return "[" + strings.Join(c, ",") + "]"
}

func answersTargets(t tuf.TargetsMetadata) []qa {
	var rules, matches strings.Builder
	for i, r := range t.GetRules() {
		pids := r.GetPrincipalIDs()
		fmt.Fprintf(&rules, "#%d id=%q threshold=%d principals=%s terminating=%v namespaces=%q\n", i, r.ID(), r.GetThreshold(), setString(pids != nil, contents(pids)), r.IsLastTrustedInRuleFile(), r.GetProtectedNamespaces())
		for _, p := range coverPaths {
			fmt.Fprintf(&matches, "#%d %q:%v ", i, p, r.Matches(p))
		}
	}
	return []qa{
		{"GetRules", rules.String()},
		{"Matches", matches.String()},
		{"GetPrincipals", principalsMapString(t.GetPrincipals())},
		{"GetVersion", strconv.FormatUint(t.GetVersion(), 10)},
	}
}

func contents(s interface{ Contents() []string }) []string {
	// s may be a typed nil pointer
	defer func() { _ = recover() }()
	if s == nil {
		return nil
	}
	return s.Contents()
}

func thresholdString(n int, err error) string {
	if err != nil {
		return "error: " + err.Error()
	}
	return strconv.Itoa(n)
}

func otherRepos(l []tuf.OtherRepository) string {
	s := []string{}
	for _, r := range l {
		ps := []string{}
		for _, p := range r.GetInitialRootPrincipals() {
			ps = append(ps, principalString(p))
		}
		sort.Strings(ps)
		s = append(s, r.GetName()+"@"+r.GetLocation()+"{"+strings.Join(ps, ";")+"}")
	}
	return strings.Join(s, " | ")
}

func answersRoot(r tuf.RootMetadata) []qa {
	var globals, gmatch, props, hooks strings.Builder
	for i, g := range r.GetGlobalRules() {
		switch g := g.(type) {
		case tuf.GlobalRuleThreshold:
			fmt.Fprintf(&globals, "#%d threshold name=%q threshold=%d namespaces=%q\n", i, g.GetName(), g.GetThreshold(), g.GetProtectedNamespaces())
			for _, p := range coverPaths {
				fmt.Fprintf(&gmatch, "#%d %q:%v ", i, p, g.Matches(p))
			}
		case tuf.GlobalRuleBlockForcePushes:
			fmt.Fprintf(&globals, "#%d block-force-pushes name=%q namespaces=%q\n", i, g.GetName(), g.GetProtectedNamespaces())
			for _, p := range coverPaths {
				fmt.Fprintf(&gmatch, "#%d %q:%v ", i, p, g.Matches(p))
			}
		default:
			fmt.Fprintf(&globals, "#%d unknown kind %T\n", i, g)
		}
	}
	for i, d := range r.GetPropagationDirectives() {
		fmt.Fprintf(&props, "#%d %q %q %q %q %q %q\n", i, d.GetName(), d.GetUpstreamRepository(), d.GetUpstreamReference(), d.GetUpstreamPath(), d.GetDownstreamReference(), d.GetDownstreamPath())
	}
	for _, st := range []tuf.HookStage{tuf.HookStagePreCommit, tuf.HookStagePrePush} {
		hs, err := r.GetHooks(st)
		// "no hooks defined" and "zero hooks" are the same answer for every
		// consumer (policy.State.preprocess treats the error as an empty list)
		if err != nil && !errors.Is(err, tuf.ErrNoHooksDefined) {
			fmt.Fprintf(&hooks, "stage %d error: %v\n", st, err)
			continue
		}
		for i, h := range hs {
			hh := []string{}
			for a, b := range h.GetHashes() {
				hh = append(hh, a+"="+b)
			}
			sort.Strings(hh)
			pids := h.GetPrincipalIDs()
			fmt.Fprintf(&hooks, "stage %d #%d id=%q principals=%s hashes=%v env=%d timeout=%d\n", st, i, h.ID(), setString(pids != nil, contents(pids)), hh, h.GetEnvironment(), h.GetTimeout())
		}
	}
	rt, rterr := r.GetRootThreshold()
	tt, tterr := r.GetPrimaryRuleFileThreshold()
	rp, rperr := safePrincipals(r.GetRootPrincipals)
	tp, tperr := safePrincipals(r.GetPrimaryRuleFilePrincipals)
	return []qa{
		{"GetPrincipals", principalsMapString(r.GetPrincipals())},
		{"GetRootThreshold", thresholdString(rt, rterr)},
		{"GetRootPrincipals", principalsListString(rp, rperr)},
		{"GetPrimaryRuleFileThreshold", thresholdString(tt, tterr)},
		{"GetPrimaryRuleFilePrincipals", principalsListString(tp, tperr)},
		{"GetGlobalRules", globals.String()},
		{"GlobalRule.Matches", gmatch.String()},
		{"GetPropagationDirectives", props.String()},
		{"GetHooks", hooks.String()},
		{"IsController", strconv.FormatBool(r.IsController())},
		{"GetControllerRepositories", otherRepos(r.GetControllerRepositories())},
		{"GetNetworkRepositories", otherRepos(r.GetNetworkRepositories())},
		{"GetRepositoryLocation", r.GetRepositoryLocation()},
		{"GetVersion", strconv.FormatUint(r.GetVersion(), 10)},
	}
}

func safePrincipals(f func() ([]tuf.Principal, error)) (l []tuf.Principal, err error) {
	defer func() {
		if r := recover(); r != nil {
			err = fmt.Errorf("panic: %v", r)
		}
	}()
	return f()
}

func answers(o *obj) []qa {
	if o.sub.root {
		return answersRoot(o.r)
	}
	return answersTargets(o.t)
}

// firstDiff returns the first query answered differently ("" if none).
func firstDiff(a, b []qa) (string, string) {
	for i := range a {
		if i >= len(b) || a[i].q != b[i].q {
			return a[i].q, "query lists differ"
		}
		if a[i].a != b[i].a {
			return a[i].q, fmt.Sprintf("%q != %q", clip(a[i].a), clip(b[i].a))
		}
	}
	return "", ""
}

func clip(s string) string {
	if len(s) > 400 {
		return s[:400] + "..."
	}
	return s
}

// ---------------------------------------------------------------------------
// the invariant, evaluated on the emitted JSON with local types only

type jsRole struct {
	Name         string    `json:"name"`
	Paths        []string  `json:"paths"`
	Terminating  bool      `json:"terminating"`
	Threshold    int       `json:"threshold"`
	KeyIDs       *[]string `json:"keyids"`
	PrincipalIDs *[]string `json:"principalIDs"`
}

func (r jsRole) ids() []string {
	if r.KeyIDs != nil {
		return *r.KeyIDs
	}
	if r.PrincipalIDs != nil {
		return *r.PrincipalIDs
	}
	return nil
}

type jsTargets struct {
	Delegations *struct {
		Keys       map[string]json.RawMessage `json:"keys"`
		Principals map[string]json.RawMessage `json:"principals"`
		Roles      []jsRole                   `json:"roles"`
	} `json:"delegations"`
}

type jsRoot struct {
	Keys        map[string]json.RawMessage `json:"keys"`
	Principals  map[string]json.RawMessage `json:"principals"`
	Roles       map[string]jsRole          `json:"roles"`
	GlobalRules []struct {
		Name      string `json:"name"`
		Type      string `json:"type"`
		Threshold *int   `json:"threshold"`
	} `json:"globalRules"`
}

type finding struct{ tag, detail string }

func distinct(l []string) int {
	m := map[string]bool{}
	for _, x := range l {
		m[x] = true
	}
	return len(m)
}

func roleFindings(what string, r jsRole, defined func(string) bool) []finding {
	out := []finding{}
	if r.Threshold < 1 {
		out = append(out, finding{"threshold-below-one", fmt.Sprintf("%s has threshold %d", what, r.Threshold)})
	}
	if n := distinct(r.ids()); r.Threshold > n {
		out = append(out, finding{"threshold-exceeds-distinct-principals", fmt.Sprintf("%s has threshold %d but lists %d distinct principal(s)", what, r.Threshold, n)})
	}
	for _, id := range r.ids() {
		if !defined(id) {
			out = append(out, finding{"undefined-principal", fmt.Sprintf("%s names principal %q which the metadata does not define", what, id)})
			break
		}
	}
	return out
}

func invariantTargets(js []byte, legacy bool) []finding {
	var d jsTargets
	if err := json.Unmarshal(js, &d); err != nil || d.Delegations == nil {
		return []finding{{"json-not-a-rule-file", fmt.Sprintf("%v", err)}}
	}
	defined := func(id string) bool {
		if legacy {
			_, ok := d.Delegations.Keys[id]
			return ok
		}
		_, ok := d.Delegations.Principals[id]
		return ok
	}
	out := []finding{}
	roles := d.Delegations.Roles
	if len(roles) == 0 || roles[len(roles)-1].Name != tuf.AllowRuleName {
		out = append(out, finding{"allow-rule-not-last", fmt.Sprintf("the rule file has %d rule(s) and does not end with the allow rule", len(roles))})
	} else {
		last := roles[len(roles)-1]
		if !last.Terminating || len(last.Paths) != 1 || last.Paths[0] != "*" || last.Threshold != 1 || len(last.ids()) != 0 {
			out = append(out, finding{"allow-rule-malformed", fmt.Sprintf("the last rule carries the allow rule's name but is %+v", last)})
		}
	}
	for i, r := range roles {
		if i == len(roles)-1 && r.Name == tuf.AllowRuleName {
			continue
		}
		if r.Name == tuf.AllowRuleName {
			out = append(out, finding{"allow-rule-not-only-last", fmt.Sprintf("rule #%d of %d is the allow rule", i, len(roles))})
			continue
		}
		if strings.HasPrefix(r.Name, tuf.GittufPrefix) {
			out = append(out, finding{"reserved-prefix-user-rule", fmt.Sprintf("user rule #%d is named %q", i, r.Name)})
		}
		out = append(out, roleFindings(fmt.Sprintf("rule %q", r.Name), r, defined)...)
	}
	return out
}

func invariantRoot(js []byte, legacy bool) []finding {
	var d jsRoot
	if err := json.Unmarshal(js, &d); err != nil {
		return []finding{{"json-not-a-root", err.Error()}}
	}
	defined := func(id string) bool {
		if legacy {
			_, ok := d.Keys[id]
			return ok
		}
		_, ok := d.Principals[id]
		return ok
	}
	out := []finding{}
	names := []string{}
	for n := range d.Roles {
		names = append(names, n)
	}
	sort.Strings(names)
	for _, n := range names {
		out = append(out, roleFindings(fmt.Sprintf("role %q", n), d.Roles[n], defined)...)
	}
	for _, g := range d.GlobalRules {
		if g.Type == tuf.GlobalRuleThresholdType && (g.Threshold == nil || *g.Threshold < 1) {
			out = append(out, finding{"threshold-below-one", fmt.Sprintf("global threshold rule %q has no threshold of at least one", g.Name)})
		}
	}
	return out
}

func invariant(sub *subject, js []byte, legacy bool) []finding {
	if sub.root {
		return invariantRoot(js, legacy)
	}
	return invariantTargets(js, legacy)
}

// ---------------------------------------------------------------------------
// judging

type verdict struct{ sig, what string }

func opSite(sub *subject, p *op) string {
	if p == nil {
		return sub.Name + ".New"
	}
	return sub.Name + "." + p.Mut + ":" + p.Tag
}

func opName(p *op) string {
	if p == nil {
		return "<start>"
	}
	return p.Name
}

// judgeTransition judges what the mutator did relative to the parent state.
// It returns the child's JSON (nil when the child cannot be serialized or the
// mutator panicked: such a state is not explored further).
func judgeTransition(sub *subject, parJS []byte, parAns []qa, o *obj, p *op, err error, pv any) ([]byte, []verdict) {
	if pv != nil {
		return nil, []verdict{{"C13:mutator-panics:" + sub.Name + "." + p.Mut + ":" + panicSig(pv), fmt.Sprintf("%s panicked instead of accepting or refusing: %v", p.Name, pv)}}
	}
	js, merr := o.marshal()
	if merr != nil {
		if err == nil {
			return nil, []verdict{{"C13:accepted-edit-unserializable:" + opSite(sub, p), fmt.Sprintf("%s was accepted but the metadata can no longer be serialized: %v", p.Name, merr)}}
		}
		return nil, []verdict{{"C13:refused-edit-mutates:" + opSite(sub, p) + ":unserializable", fmt.Sprintf("%s was refused (%v) and left metadata that cannot be serialized: %v", p.Name, err, merr)}}
	}
	if err == nil {
		return js, nil
	}
	if bytes.Equal(js, parJS) {
		// a rule file has no field that the serializer omits, so identical
		// JSON means identical content; a root has omitempty containers
		if !sub.root {
			return js, nil
		}
		if q, d := firstDiff(parAns, answers(o)); q != "" {
			return js, []verdict{{"C13:refused-edit-mutates:" + opSite(sub, p) + ":in-memory-only:" + q, fmt.Sprintf("%s was refused (%v), the JSON is unchanged, but %s now answers differently: %s", p.Name, err, q, d)}}
		}
		return js, nil
	}
	q, d := firstDiff(parAns, answers(o))
	if q == "" {
		return js, []verdict{{"C13:refused-edit-mutates-json-only:" + sub.Name + "." + p.Mut, fmt.Sprintf("%s was refused (%v) but the serialized metadata changed (all queries still answer the same): %s", p.Name, err, jsonDelta(parJS, js))}}
	}
	return js, []verdict{{"C13:refused-edit-mutates:" + opSite(sub, p) + ":" + q, fmt.Sprintf("%s was refused (%v) but changed the metadata; %s: %s", p.Name, err, q, d)}}
}

// panicSig is "<message>:<function that panicked>" of a recovered panic as
// formatted by apply/applyAPI.
func panicSig(pv any) string {
	parts := strings.SplitN(fmt.Sprint(pv), " at ", 2)
	msg := strings.TrimPrefix(parts[0], "runtime error: ")
	fn := "?"
	if len(parts) == 2 {
		fn = strings.SplitN(parts[1], " (", 2)[0]
		fn = fn[strings.LastIndex(fn, "/")+1:]
		fn = strings.NewReplacer("(", "", ")", "", "*", "").Replace(fn)
	}
	return slug(msg) + ":" + fn
}

// slug turns a panic message into a signature component.
func slug(s string) string {
	var b strings.Builder
	for _, r := range strings.ToLower(s) {
		switch {
		case r >= 'a' && r <= 'z', r >= '0' && r <= '9':
			b.WriteRune(r)
		default:
			b.WriteByte('-')
		}
		if b.Len() >= 60 {
			break
		}
	}
	return strings.Trim(b.String(), "-")
}

func jsonDelta(a, b []byte) string {
	i := 0
	for i < len(a) && i < len(b) && a[i] == b[i] {
		i++
	}
	lo := i - 30
	if lo < 0 {
		lo = 0
	}
	ea, eb := i+50, i+50
	if ea > len(a) {
		ea = len(a)
	}
	if eb > len(b) {
		eb = len(b)
	}
	return fmt.Sprintf("before ...%s... after ...%s...", a[lo:ea], b[lo:eb])
}

func load(sub *subject, js []byte, migrate bool) (*obj, error) {
	env := &sslibdsse.Envelope{PayloadType: "application/vnd.gittuf+json", Payload: base64.StdEncoding.EncodeToString(js), Signatures: []sslibdsse.Signature{}}
	if sub.root {
		sm := &policy.StateMetadata{RootEnvelope: env}
		r, err := sm.GetRootMetadata(migrate)
		if err != nil {
			return nil, err
		}
		return &obj{sub: sub, r: r}, nil
	}
	sm := &policy.StateMetadata{TargetsEnvelope: env}
	t, err := sm.GetTargetsMetadata(policy.TargetsRoleName, migrate)
	if err != nil {
		return nil, err
	}
	return &obj{sub: sub, t: t}, nil
}

// judgeState evaluates the invariant and the query equivalences on one state.
// wellFormed=false means the invariant is broken (the state is not expanded).
func judgeState(sub *subject, o *obj, js []byte, p *op) (vs []verdict, wellFormed bool) {
	site := opSite(sub, p)
	fs := invariant(sub, js, sub.legacy)
	for _, f := range fs {
		vs = append(vs, verdict{"C13:" + f.tag + ":" + site, fmt.Sprintf("after %s: %s", opName(p), f.detail)})
	}
	if len(fs) > 0 {
		return vs, false
	}
	want := answers(o)
	re, err := load(sub, js, false)
	if err != nil {
		vs = append(vs, verdict{"C13:reload-fails:" + site, fmt.Sprintf("after %s the serialized metadata cannot be loaded: %v", opName(p), err)})
	} else if q, d := firstDiff(want, answers(re)); q != "" {
		vs = append(vs, verdict{"C13:reload-differs:" + sub.Name + ":" + q, fmt.Sprintf("after %s, %s answers differently after serialize+load: %s", opName(p), q, d)})
	}
	if !sub.legacy {
		return vs, true
	}
	// migration through the loader (as gittuf does it) and directly in memory
	var direct *obj
	mv2 := &subject{Name: "v02(migrated)", root: sub.root}
	if sub.root {
		direct = &obj{sub: mv2, r: migrations.MigrateRootMetadataV01ToV02(o.r.(*tufv01.RootMetadata))}
	} else {
		direct = &obj{sub: mv2, t: migrations.MigrateTargetsMetadataV01ToV02(o.t.(*tufv01.TargetsMetadata))}
	}
	if q, d := firstDiff(want, answers(direct)); q != "" {
		vs = append(vs, verdict{"C13:migration-differs:" + sub.Name + ":" + q, fmt.Sprintf("after %s, %s answers differently after the in-memory v01->v02 migration: %s", opName(p), q, d)})
	}
	if sub.root {
		if sv := direct.r.GetSchemaVersion(); sv != tufv02.RootVersion {
			vs = append(vs, verdict{"C13:migration-wrong-schema:" + sub.Name, "migrated root reports schema " + sv})
		}
	} else if sv := direct.t.GetSchemaVersion(); sv != tufv02.TargetsVersion {
		vs = append(vs, verdict{"C13:migration-wrong-schema:" + sub.Name, "migrated rule file reports schema " + sv})
	}
	mjs, merr := direct.marshal()
	if merr != nil {
		vs = append(vs, verdict{"C13:migration-unserializable:" + site, fmt.Sprintf("after %s the migrated metadata cannot be serialized: %v", opName(p), merr)})
	} else {
		for _, f := range invariant(sub, mjs, false) {
			vs = append(vs, verdict{"C13:migration-breaks-invariant:" + f.tag + ":" + sub.Name, fmt.Sprintf("after %s and migration: %s", opName(p), f.detail)})
		}
		if re2, err := load(mv2, mjs, false); err != nil {
			vs = append(vs, verdict{"C13:migration-reload-fails:" + site, fmt.Sprintf("after %s the migrated, serialized metadata cannot be loaded: %v", opName(p), err)})
		} else if q, d := firstDiff(want, answers(re2)); q != "" {
			vs = append(vs, verdict{"C13:migration-reload-differs:" + sub.Name + ":" + q, fmt.Sprintf("after %s, %s answers differently after migrate+serialize+load: %s", opName(p), q, d)})
		}
	}
	if viaLoader, err := load(sub, js, true); err != nil {
		vs = append(vs, verdict{"C13:migrating-load-fails:" + site, fmt.Sprintf("after %s the loader cannot load+migrate: %v", opName(p), err)})
	} else if q, d := firstDiff(want, answers(viaLoader)); q != "" {
		vs = append(vs, verdict{"C13:migrating-load-differs:" + sub.Name + ":" + q, fmt.Sprintf("after %s, %s answers differently after serialize+load+migrate: %s", opName(p), q, d)})
	}
	return vs, true
}

// ---------------------------------------------------------------------------
// search

type replay struct {
	Subject string   `json:"subject"`
	Start   string   `json:"start"`
	Ops     []string `json:"ops"`
}

func names(path []*op) []string {
	out := make([]string, len(path))
	for i, p := range path {
		out[i] = p.Name
	}
	return out
}

func errClass(err error) string {
	if err == nil {
		return "accepted"
	}
	// the sentinel part of the message (wrapped errors add ": detail")
	s := err.Error()
	if i := strings.Index(s, ":"); i > 0 {
		s = s[:i]
	}
	return "refused(" + s + ")"
}

func depthFor(sub *subject, thorough bool) int {
	if v := os.Getenv("VERIF_C13_DEPTH"); v != "" {
		if n, err := strconv.Atoi(v); err == nil && n > 0 {
			return n
		}
	}
	switch {
	case sub.root && thorough:
		return 5
	case sub.root:
		return 4
	case thorough:
		return 6
	default:
		return 5
	}
}

func TestC13(t *testing.T) {
	col := evid.New("C13")
	defer func() {
		if err := col.Write(); err != nil {
			t.Fatal(err)
		}
	}()
	targetsStatic = buildTargetsOps()
	rootStatic = buildRootOps()
	thorough := evid.Thorough()

	for _, s := range subjects {
		col.Bound("depth."+s.Name, depthFor(s, thorough))
	}
	col.Bound("operations.rule-file", len(targetsStatic))
	col.Bound("operations.root", len(rootStatic))
	col.Rule("breadth-first search over all sequences of metadata edits (rule files: %d fixed operations + up to 7 state-derived ReorderRules lists; roots: %d operations; menus include reserved-prefix/allow-rule/empty names, unknown and duplicated principal ids, thresholds -1..3, nil and unsupported principal types, invalid hook stages/environments) on 4 subjects (v01/v02 rule file, v01/v02 root) from 2 start states each (fresh; seeded with two principals and one rule/role), to the stated depth. Every transition re-executes the whole path on a fresh object with the real mutators; states are deduplicated per shard on the JSON the real serializer emits. A class is (subject, mutator, argument shape, accepted or the refusal reason). Lane G: the same search over %d repository-API operations on real git repositories (state = copy of the repository directory, dedup on the staged rule files read with git plumbing).", len(targetsStatic), len(rootStatic), len(apiOps()))
	col.Assume("the invariant is read from the emitted JSON with harness-local types; the allow rule itself is exempt from the 'listed principals can meet the threshold' clause (it lists none by design); GetHooks answering ErrNoHooksDefined equals answering zero hooks (policy.State.preprocess treats them alike); GitHub-app edits are outside the property's quantifier and not explored; uniqueness of rule names is required only across rule files through the repository API (lane G), not of the raw mutators inside one rule file")

	if rf := evid.ReplayFile(); rf != "" {
		runReplay(t, col, rf)
		return
	}

	shard, _ := evid.Shard()
	item := 0
	for _, sub := range subjects {
		depth := depthFor(sub, thorough)
		for _, start := range startOrder {
			seed, err := seedOps(sub, start)
			if err != nil {
				col.Fail(err.Error())
				return
			}
			if !search(col, sub, start, seed, depth, shard, &item) {
				return
			}
		}
	}
	// lane G last: if the time cap stops it, the in-memory search is complete
	if os.Getenv("VERIF_C13_SKIP_API") == "" {
		searchAPI(t, col, thorough, &item)
	}
}

type node struct {
	path []*op
}

func key(js []byte) [16]byte {
	h := sha256.Sum256(js)
	var k16 [16]byte
	copy(k16[:], h[:16])
	return k16
}


// observed reports outcomes that are recorded but NOT judged as violations of
// C13 (decided by the lead, see DESIGN.md C13):
//   - a refused edit that changes only the serialized form (null -> {} or an
//     added empty container) while every query answers the same: the statement
//     demands that the METADATA is unchanged, not its bytes;
//   - a panic of the repository API on a root-only repository: a crash, but
//     the metadata stays well formed and nothing is accepted.
func observed(col *evid.Collector, sig string) bool {
	switch {
	case strings.HasPrefix(sig, "C13:refused-edit-mutates-json-only:"):
		col.Inc("observed_refused_edit_changes_serialized_form_only")
		return true
	case strings.HasPrefix(sig, "C13:api-panics:"):
		col.Inc("observed_api_panic")
		return true
	}
	return false
}

func report(col *evid.Collector, sub *subject, start string, path []*op, vs []verdict) {
	for _, v := range vs {
		if observed(col, v.sig) {
			continue
		}
		col.Violation(v.sig, fmt.Sprintf("[%s from %s] %s", sub.Name, start, v.what), replay{Subject: sub.Name, Start: start, Ops: names(path)})
	}
}

// search explores one (subject, start); false = stop everything (time cap or
// internal error).
func search(col *evid.Collector, sub *subject, start string, seed []*op, depth, shard int, item *int) bool {
	o0 := rebuild(sub, seed, nil)
	js0, err := o0.marshal()
	if err != nil {
		col.Fail("start state cannot be serialized: " + err.Error())
		return false
	}
	seen := map[[16]byte]struct{}{key(js0): {}}
	if shard == 0 {
		col.Inc("states")
		col.Inc("evaluations")
		vs, _ := judgeState(sub, o0, js0, nil)
		report(col, sub, start, nil, vs)
	}
	frontier := []node{{}}
	sampled := false
	for d := 0; d < depth && len(frontier) > 0; d++ {
		next := []node{}
		for _, n := range frontier {
			po := rebuild(sub, seed, n.path)
			pjs, err := po.marshal()
			if err != nil {
				col.Fail("a state that was serializable is not on re-execution (non-determinism): " + err.Error())
				return false
			}
			pans := answers(po)
			for _, p := range menu(po) {
				mine := true
				if d == 0 {
					*item++
					mine = evid.Mine(*item)
				}
				if mine && col.Expired() {
					return false
				}
				o := rebuild(sub, seed, n.path)
				err, pv := apply(o, p)
				path := append(append(make([]*op, 0, len(n.path)+1), n.path...), p)
				if !mine {
					// another shard owns this first operation; only keep the
					// first-level dedup identical in all shards
					if js, vs := judgeTransition(sub, pjs, pans, o, p, err, pv); js != nil && len(vs) == 0 {
						seen[key(js)] = struct{}{}
					}
					continue
				}
				col.Inc("transitions")
				col.Inc("evaluations")
				col.Inc("traces_validated_against_impl")
				if err != nil {
					col.Inc("edits_refused")
				} else {
					col.Inc("edits_accepted")
				}
				col.Class("%s.%s[%s]/%s", sub.Name, p.Mut, p.Tag, errClass(err))
				js, vs := judgeTransition(sub, pjs, pans, o, p, err, pv)
				report(col, sub, start, path, vs)
				if js == nil || len(vs) > 0 {
					// the edit itself misbehaved: reported, and what it left
					// behind is not a state "after accepted edits"
					col.Inc("transitions_misbehaved_not_expanded")
					continue
				}
				kk := key(js)
				if _, dup := seen[kk]; dup {
					continue
				}
				seen[kk] = struct{}{}
				col.Inc("states")
				svs, ok := judgeState(sub, o, js, p)
				report(col, sub, start, path, svs)
				if !ok {
					col.Inc("states_ill_formed_not_expanded")
					continue
				}
				if len(path) == depth && !sampled && err == nil {
					sampled = true
					col.Sample(map[string]any{"subject": sub.Name, "start": start, "ops": names(path), "json": string(js)})
				}
				if len(path) < depth {
					next = append(next, node{path: path})
				}
			}
		}
		frontier = next
	}
	return true
}

func runReplay(t *testing.T, col *evid.Collector, rf string) {
	var r replay
	if err := evid.LoadReplay(rf, &r); err != nil {
		col.Fail(err.Error())
		return
	}
	if r.Subject == "api" {
		replayAPI(t, col, r)
		return
	}
	var sub *subject
	for _, s := range subjects {
		if s.Name == r.Subject {
			sub = s
		}
	}
	if sub == nil {
		col.Fail("replay: unknown subject " + r.Subject)
		return
	}
	seed, err := seedOps(sub, r.Start)
	if err != nil {
		col.Fail(err.Error())
		return
	}
	o := rebuild(sub, seed, nil)
	js, err := o.marshal()
	if err != nil {
		col.Fail(err.Error())
		return
	}
	vs, _ := judgeState(sub, o, js, nil)
	report(col, sub, r.Start, nil, vs)
	path := []*op{}
	for _, name := range r.Ops {
		p := findOp(o, name)
		if p == nil {
			col.Fail("replay: operation not in the menu of the state reached: " + name)
			return
		}
		pans := answers(o)
		err, pv := apply(o, p)
		path = append(path, p)
		col.Inc("transitions")
		col.Inc("evaluations")
		fmt.Printf("replay: %s -> %s\n", p.Name, errClass(err))
		njs, tv := judgeTransition(sub, js, pans, o, p, err, pv)
		report(col, sub, r.Start, path, tv)
		if njs == nil {
			return
		}
		sv, ok := judgeState(sub, o, njs, p)
		report(col, sub, r.Start, path, sv)
		fmt.Printf("replay: state %s\n", njs)
		if !ok {
			return
		}
		js = njs
	}
}

// ---------------------------------------------------------------------------
// lane G: rule names stay unique across all rule files through the repository
// API (gittuf.Repository on a real git repository). States are snapshots of
// the repository directory; the policy is read back with git plumbing.

type apiSigner struct{ keys.Signer }

func (apiSigner) Verify(context.Context, []byte, []byte) error {
	return errors.New("c13: verification is not part of this exploration")
}
func (s apiSigner) Public() crypto.PublicKey { return s.K.Pub }

type apiOp struct {
	Name string
	Mut  string
	Tag  string
	run  func(r *gittuf.Repository) error
}

func apiOps() []*apiOp {
	t0 := keys.Get("C13-T0")
	sg := apiSigner{keys.Signer{K: t0}}
	ctx := context.Background()
	out := []*apiOp{}
	for _, f := range []string{"targets", "deleg"} {
		f := f
		out = append(out, &apiOp{Name: "InitializeTargets(" + f + ")", Mut: "InitializeTargets", Tag: f, run: func(r *gittuf.Repository) error {
			return r.InitializeTargets(ctx, sg, f, false)
		}})
		out = append(out, &apiOp{Name: "AddPrincipalToTargets(" + f + ",t0)", Mut: "AddPrincipalToTargets", Tag: f, run: func(r *gittuf.Repository) error {
			return r.AddPrincipalToTargets(ctx, sg, f, []tuf.Principal{t0.TUFKey()}, false)
		}})
	}
	type da struct {
		file, rule string
		pats       []string
		tag        string
	}
	for _, a := range []da{
		{"targets", "deleg", []string{"git:refs/heads/*"}, "delegating-rule"},
		{"targets", "r1", []string{"git:refs/heads/main"}, "primary-file"},
		{"deleg", "r1", []string{"file:a"}, "delegated-file"},
		{"targets", "r2", []string{"git:refs/tags/*"}, "primary-file"},
		{"deleg", "r2", []string{"file:b"}, "delegated-file"},
		{"deleg", "gittuf-x", []string{"file:x"}, "reserved-prefix"},
		{"nofile", "r3", []string{"file:x"}, "unknown-file"},
	} {
		a := a
		out = append(out, &apiOp{Name: fmt.Sprintf("AddDelegation(%s,%s)", a.file, a.rule), Mut: "AddDelegation", Tag: a.tag, run: func(r *gittuf.Repository) error {
			return r.AddDelegation(ctx, sg, a.file, a.rule, []string{t0.KeyID}, a.pats, 1, false)
		}})
	}
	for _, a := range []da{
		{"targets", "r1", []string{"git:refs/heads/dev"}, "primary-file"},
		{"deleg", "r1", []string{"file:c"}, "delegated-file"},
		{"deleg", "r2", []string{"file:d"}, "delegated-file"},
	} {
		a := a
		out = append(out, &apiOp{Name: fmt.Sprintf("UpdateDelegation(%s,%s)", a.file, a.rule), Mut: "UpdateDelegation", Tag: a.tag, run: func(r *gittuf.Repository) error {
			return r.UpdateDelegation(ctx, sg, a.file, a.rule, []string{t0.KeyID}, a.pats, 1, false)
		}})
	}
	for _, a := range []da{
		{"targets", "r1", nil, "primary-file"},
		{"deleg", "r1", nil, "delegated-file"},
		{"targets", "r2", nil, "primary-file"},
	} {
		a := a
		out = append(out, &apiOp{Name: fmt.Sprintf("RemoveDelegation(%s,%s)", a.file, a.rule), Mut: "RemoveDelegation", Tag: a.tag, run: func(r *gittuf.Repository) error {
			return r.RemoveDelegation(ctx, sg, a.file, a.rule, false)
		}})
	}
	return out
}

// quick tier: the first three starts; thorough: all
var apiStarts = []string{"root-only", "two-files-r1", "many-rules", "two-files", "two-files-v01"}

// apiExistingNameOps: from the "many-rules" start (both rule files hold
// several rules, file rules first and in the middle) every existing rule name
// is offered again to both rule files: each must be refused, wherever the name
// sits in its file and whatever kinds of rule precede it.
func apiExistingNameOps() []*apiOp {
	t0 := keys.Get("C13-T0")
	sg := apiSigner{keys.Signer{K: t0}}
	ctx := context.Background()
	out := []*apiOp{}
	for _, name := range []string{"deleg", "f0", "r1", "r2", "d1", "d2", "d3"} {
		for _, f := range []string{"targets", "deleg"} {
			name, f := name, f
			out = append(out, &apiOp{Name: fmt.Sprintf("AddDelegation(%s,%s)", f, name), Mut: "AddDelegation", Tag: "existing-name", run: func(r *gittuf.Repository) error {
				return r.AddDelegation(ctx, sg, f, name, []string{t0.KeyID}, []string{"git:refs/heads/x"}, 1, false)
			}})
		}
	}
	return out
}

// apiStart publishes the start policy into a fresh real repository.
func apiStart(t *testing.T, start string) (string, error) {
	g := gitback.New(t, false)
	r0, t0 := keys.Get("C13-R0"), keys.Get("C13-T0")
	root := world.Root(1, []tuf.Principal{r0.TUFKey()}, 1, []tuf.Principal{t0.TUFKey()}, 1)
	var tenv, denv *sslibdsse.Envelope
	switch start {
	case "root-only":
	case "two-files":
		tg := world.Targets(1, []tuf.Principal{t0.TUFKey()}, []world.RuleSpec{{Name: "deleg", Patterns: []string{"git:refs/heads/*"}, Principals: []string{t0.KeyID}, Threshold: 1}})
		dg := world.Targets(1, []tuf.Principal{t0.TUFKey()}, nil)
		tenv, denv = world.Envelope(tg, t0), world.Envelope(dg, t0)
	case "two-files-r1":
		tg := world.Targets(1, []tuf.Principal{t0.TUFKey()}, []world.RuleSpec{{Name: "deleg", Patterns: []string{"git:refs/heads/*"}, Principals: []string{t0.KeyID}, Threshold: 1}})
		dg := world.Targets(1, []tuf.Principal{t0.TUFKey()}, []world.RuleSpec{{Name: "r1", Patterns: []string{"file:a"}, Principals: []string{t0.KeyID}, Threshold: 1}})
		tenv, denv = world.Envelope(tg, t0), world.Envelope(dg, t0)
	case "many-rules":
		ids := []string{t0.KeyID}
		tg := world.Targets(1, []tuf.Principal{t0.TUFKey()}, []world.RuleSpec{
			{Name: "deleg", Patterns: []string{"git:refs/heads/*"}, Principals: ids, Threshold: 1},
			{Name: "f0", Patterns: []string{"file:top"}, Principals: ids, Threshold: 1},
			{Name: "r1", Patterns: []string{"git:refs/heads/main"}, Principals: ids, Threshold: 1},
			{Name: "r2", Patterns: []string{"git:refs/tags/*"}, Principals: ids, Threshold: 1}})
		dg := world.Targets(1, []tuf.Principal{t0.TUFKey()}, []world.RuleSpec{
			{Name: "d1", Patterns: []string{"file:a"}, Principals: ids, Threshold: 1},
			{Name: "d2", Patterns: []string{"git:refs/heads/dev"}, Principals: ids, Threshold: 1},
			{Name: "d3", Patterns: []string{"file:c"}, Principals: ids, Threshold: 1}})
		tenv, denv = world.Envelope(tg, t0), world.Envelope(dg, t0)
	case "two-files-v01":
		tg := tufv01.NewTargetsMetadata()
		if err := tg.AddPrincipal(t0.TUFKey()); err != nil {
			return "", err
		}
		if err := tg.AddRule("deleg", []string{t0.KeyID}, []string{"git:refs/heads/*"}, 1); err != nil {
			return "", err
		}
		dg := tufv01.NewTargetsMetadata()
		if err := dg.AddPrincipal(t0.TUFKey()); err != nil {
			return "", err
		}
		tenv, denv = world.Envelope(tg, t0), world.Envelope(dg, t0)
	default:
		return "", fmt.Errorf("unknown api start %q", start)
	}
	var dm map[string]*sslibdsse.Envelope
	if denv != nil {
		dm = map[string]*sslibdsse.Envelope{"deleg": denv}
	}
	if _, err := world.PublishPolicy(g, world.State(world.Envelope(root, r0), tenv, dm), true); err != nil {
		return "", err
	}
	return g.Dir, nil
}

func gitOut(dir string, args ...string) ([]byte, error) {
	cmd := exec.Command("git", append([]string{"-C", dir}, args...)...)
	cmd.Env = append(os.Environ(), "LC_ALL=C", "GIT_CONFIG_GLOBAL=/dev/null", "GIT_CONFIG_SYSTEM=/dev/null")
	var out, errb bytes.Buffer
	cmd.Stdout, cmd.Stderr = &out, &errb
	if err := cmd.Run(); err != nil {
		return nil, fmt.Errorf("git %s: %w: %s", strings.Join(args, " "), err, errb.String())
	}
	return out.Bytes(), nil
}

// stagedPolicy reads the rule files under the policy-staging ref with git
// plumbing only: file name -> decoded payload.
func stagedPolicy(dir string) (tip string, files map[string][]byte, err error) {
	b, err := gitOut(dir, "rev-parse", "--verify", policy.PolicyStagingRef)
	if err != nil {
		return "", nil, err
	}
	tip = strings.TrimSpace(string(b))
	ls, err := gitOut(dir, "ls-tree", "-z", "--name-only", tip+":metadata")
	if err != nil {
		return "", nil, err
	}
	files = map[string][]byte{}
	for _, name := range strings.Split(strings.TrimRight(string(ls), "\x00"), "\x00") {
		if name == "" || name == "root.json" {
			continue
		}
		blob, err := gitOut(dir, "cat-file", "blob", tip+":metadata/"+name)
		if err != nil {
			return "", nil, err
		}
		var env struct {
			Payload string `json:"payload"`
		}
		if err := json.Unmarshal(blob, &env); err != nil {
			return "", nil, fmt.Errorf("%s: %w", name, err)
		}
		payload, err := base64.StdEncoding.DecodeString(env.Payload)
		if err != nil {
			return "", nil, fmt.Errorf("%s: %w", name, err)
		}
		files[name] = payload
	}
	return tip, files, nil
}

// apiJudge evaluates the staged policy: per-file invariant and uniqueness of
// user rule names across all rule files. It also returns the dedup key
// (payloads with the version number blanked: no explored operation reads it).
func apiJudge(files map[string][]byte) (fs []finding, k string) {
	fnames := []string{}
	for n := range files {
		fnames = append(fnames, n)
	}
	sort.Strings(fnames)
	owner := map[string]string{}
	var kb strings.Builder
	for _, n := range fnames {
		js := files[n]
		var probe map[string]json.RawMessage
		_ = json.Unmarshal(js, &probe)
		_, hasSchema := probe["schemaVersion"]
		for _, f := range invariantTargets(js, !hasSchema) {
			fs = append(fs, finding{f.tag, n + ": " + f.detail})
		}
		var d jsTargets
		if err := json.Unmarshal(js, &d); err == nil && d.Delegations != nil {
			for _, r := range d.Delegations.Roles {
				if r.Name == tuf.AllowRuleName {
					continue
				}
				if prev, dup := owner[r.Name]; dup {
					fs = append(fs, finding{"duplicate-rule-name-across-files", fmt.Sprintf("rule name %q appears in %s and in %s", r.Name, prev, n)})
				}
				owner[r.Name] = n
			}
		}
		delete(probe, "version")
		nb, _ := json.Marshal(probe)
		kb.WriteString(n)
		kb.WriteByte('=')
		kb.Write(nb)
		kb.WriteByte('\n')
	}
	return fs, kb.String()
}

func copyDir(src, dst string) error {
	out, err := exec.Command("cp", "-a", src, dst).CombinedOutput()
	if err != nil {
		return fmt.Errorf("cp -a: %w: %s", err, out)
	}
	return nil
}

func applyAPI(dir string, p *apiOp) (err error, pv any) {
	defer func() {
		if r := recover(); r != nil {
			pv = fmt.Sprintf("%v at %s", r, panicSite())
		}
	}()
	r, lerr := gittuf.LoadRepository(dir)
	if lerr != nil {
		return fmt.Errorf("c13-internal: %w", lerr), nil
	}
	return p.run(r), nil
}

// apiStep runs p on the repository in dir (in place) and judges the result.
func apiStep(dir string, p *apiOp, tipBefore, kBefore string) (vs []verdict, k, tip string, internal error, opErr error) {
	if tipBefore == "" {
		tb, filesBefore, err := stagedPolicy(dir)
		if err != nil {
			return nil, "", "", err, nil
		}
		tipBefore = tb
		_, kBefore = apiJudge(filesBefore)
	}
	opErr, pv := applyAPI(dir, p)
	if opErr != nil && strings.HasPrefix(opErr.Error(), "c13-internal") {
		return nil, "", "", opErr, nil
	}
	site := "api." + p.Mut + ":" + p.Tag
	if pv != nil {
		vs = append(vs, verdict{"C13:api-panics:api." + p.Mut + ":" + panicSig(pv), fmt.Sprintf("%s panicked: %v", p.Name, pv)})
	}
	tipAfter, filesAfter, err := stagedPolicy(dir)
	if err != nil {
		return vs, "", "", err, opErr
	}
	fs, kAfter := apiJudge(filesAfter)
	for _, f := range fs {
		vs = append(vs, verdict{"C13:" + f.tag + ":" + site, fmt.Sprintf("after %s: %s", p.Name, f.detail)})
	}
	if (opErr != nil || pv != nil) && (tipAfter != tipBefore || kAfter != kBefore) {
		vs = append(vs, verdict{"C13:refused-edit-mutates:" + site, fmt.Sprintf("%s was refused (%v) but the staged policy moved from %s to %s", p.Name, opErr, tipBefore, tipAfter)})
	}
	return vs, kAfter, tipAfter, nil, opErr
}

func panicked(vs []verdict) bool {
	for _, v := range vs {
		if strings.HasPrefix(v.sig, "C13:api-panics:") {
			return true
		}
	}
	return false
}

func apiDepth(thorough bool) int {
	if v := os.Getenv("VERIF_C13_API_DEPTH"); v != "" {
		if n, err := strconv.Atoi(v); err == nil && n > 0 {
			return n
		}
	}
	if thorough {
		return 3
	}
	return 1
}

func searchAPI(t *testing.T, col *evid.Collector, thorough bool, item *int) bool {
	col.Assume("lane G: rule-file version numbers are blanked in the state key (no explored API operation reads them); signatures are not verified when the API loads the staged policy (BypassRSL), so one signer is used throughout")
	depth := apiDepth(thorough)
	col.Bound("depth.api", depth)
	ops := apiOps()
	col.Bound("operations.api", len(ops))
	scratch, err := os.MkdirTemp(os.Getenv("VERIF_SCRATCH"), "c13-api-")
	if err != nil {
		col.Fail(err.Error())
		return false
	}
	defer os.RemoveAll(scratch)
	shard, _ := evid.Shard()
	n := 0
	type anode struct {
		dir, tip, k string
		path        []string
	}
	starts := apiStarts
	if !thorough {
		starts = apiStarts[:3]
	}
	col.Bound("starts.api", len(starts))
	baseOps := ops
	for _, start := range starts {
		ops = baseOps
		if start == "many-rules" {
			ops = append(append([]*apiOp{}, baseOps...), apiExistingNameOps()...)
		}
		// only build the start repository when this shard owns one of its
		// first operations (or counts the start state)
		owns := shard == 0
		for i := range ops {
			if evid.Mine(*item + 1 + i) {
				owns = true
			}
		}
		if !owns {
			*item += len(ops)
			continue
		}
		base, err := apiStart(t, start)
		if err != nil {
			col.Fail("api start " + start + ": " + err.Error())
			return false
		}
		tip0, files0, err := stagedPolicy(base)
		if err != nil {
			col.Fail(err.Error())
			return false
		}
		fs0, k0 := apiJudge(files0)
		seen := map[string]bool{k0: true}
		if shard == 0 {
			col.Inc("states")
			col.Inc("evaluations")
			for _, f := range fs0 {
				col.Violation("C13:"+f.tag+":api.start", "start "+start+": "+f.detail, replay{Subject: "api", Start: start})
			}
		}
		frontier := []anode{{dir: base, tip: tip0, k: k0}}
		for d := 0; d < depth && len(frontier) > 0; d++ {
			next := []anode{}
			for _, nd := range frontier {
				for _, p := range ops {
					if d == 0 {
						*item++
						if !evid.Mine(*item) {
							continue
						}
					}
					if col.Expired() {
						return false
					}
					n++
					dir := filepath.Join(scratch, fmt.Sprintf("s%d", n))
					if err := copyDir(nd.dir, dir); err != nil {
						col.Fail(err.Error())
						return false
					}
					path := append(append([]string{}, nd.path...), p.Name)
					vs, k, tip, ierr, opErr := apiStep(dir, p, nd.tip, nd.k)
					if ierr != nil {
						col.Fail("api lane: " + ierr.Error())
						return false
					}
					col.Inc("transitions")
					col.Inc("evaluations")
					col.Inc("traces_validated_against_impl")
					col.Inc("api_transitions")
					outcome := errClass(opErr)
					switch {
					case panicked(vs):
						col.Inc("api_panicked")
						outcome = "panicked"
					case opErr != nil:
						col.Inc("api_refused")
					default:
						col.Inc("api_accepted")
					}
					col.Class("api.%s[%s]/%s", p.Mut, p.Tag, outcome)
					for _, v := range vs {
						if observed(col, v.sig) {
							continue
						}
						col.Violation(v.sig, fmt.Sprintf("[api from %s] %s", start, v.what), replay{Subject: "api", Start: start, Ops: path})
					}
					if len(vs) > 0 || seen[k] {
						os.RemoveAll(dir)
						continue
					}
					seen[k] = true
					col.Inc("states")
					col.Inc("api_states")
					if len(path) < depth {
						next = append(next, anode{dir: dir, tip: tip, k: k, path: path})
					} else {
						if len(path) == depth && opErr == nil {
							col.Sample(map[string]any{"subject": "api", "start": start, "ops": path})
						}
						os.RemoveAll(dir)
					}
				}
			}
			frontier = next
		}
	}
	return true
}

func replayAPI(t *testing.T, col *evid.Collector, r replay) {
	dir, err := apiStart(t, r.Start)
	if err != nil {
		col.Fail(err.Error())
		return
	}
	ops := append(apiOps(), apiExistingNameOps()...)
	path := []string{}
	for _, name := range r.Ops {
		var p *apiOp
		for _, c := range ops {
			if c.Name == name {
				p = c
			}
		}
		if p == nil {
			col.Fail("replay: unknown api operation " + name)
			return
		}
		path = append(path, name)
		vs, _, _, ierr, opErr := apiStep(dir, p, "", "")
		if ierr != nil {
			col.Fail(ierr.Error())
			return
		}
		col.Inc("transitions")
		col.Inc("evaluations")
		fmt.Printf("replay: %s -> %s\n", name, errClass(opErr))
		for _, v := range vs {
			if observed(col, v.sig) {
				continue
			}
			col.Violation(v.sig, fmt.Sprintf("[api from %s] %s", r.Start, v.what), replay{Subject: "api", Start: r.Start, Ops: path})
		}
		if len(vs) > 0 {
			return
		}
	}
}
